import Rpcx.Model.Pool
import Rpcx.Lemmas.Own
/-
  C20 (byte pools): "Buffers handed out by the library's byte pools always have exactly the
  requested length" – theorems over the REGENERATED findPool / findPutPool.

  The pool invariant is: every buffer stored in level i has capacity ≥ levelSize i.
  * `put_fits`: Put stores a buffer of capacity c in level i only if levelSize i ≤ c
    (so the invariant is preserved by every Put, including foreign buffers of any capacity);
    fresh buffers made by a level have capacity levelSize i exactly.
  * `get_fits`: Get(size) takes from level i only if size ≤ levelSize i; under the invariant
    the reslice `(*buf)[:size]` is therefore in range: no panic and length exactly `size`;
    without a level it allocates exactly `size` bytes.  All for every 0 < min ≤ max, every size.
  The ownership half of the property (a result is never modified later) is an aliasing fact
  about util.Zip/Unzip/Encode checked on the implementation by `harness c20`
  (sequential hold-and-recheck and concurrent mixes); see `d13_witness` for the model of the
  defect that was fixed.
-/
namespace Rpcx.Props.C20
open Rpcx Rpcx.Gen

theorem ceilLogAux_spec (a b : Nat) : ∀ (fuel k : Nat), a ≤ b * 2 ^ (k + fuel) →
    a ≤ b * 2 ^ (ceilLogAux a b fuel k) ∧ k ≤ ceilLogAux a b fuel k
    ∧ (∀ j, k ≤ j → j < ceilLogAux a b fuel k → ¬ a ≤ b * 2 ^ j) := by
  intro fuel
  induction fuel with
  | zero => intro k h; simp only [ceilLogAux]; exact ⟨by simpa using h, Nat.le_refl _, fun j h1 h2 => by omega⟩
  | succ f ih =>
    intro k h
    simp only [ceilLogAux]
    split
    · rename_i hle; exact ⟨hle, Nat.le_refl _, fun j h1 h2 => by omega⟩
    · rename_i hnle
      have := ih (k + 1) (by rw [show k + 1 + f = k + (f + 1) by omega]; exact h)
      refine ⟨this.1, by omega, ?_⟩
      intro j h1 h2
      by_cases hj : j = k
      · subst hj; exact hnle
      · exact this.2.2 j (by omega) h2

theorem floorLogAux_spec (a b : Nat) : ∀ (fuel k : Nat), b * 2 ^ k ≤ a →
    b * 2 ^ (floorLogAux a b fuel k) ≤ a ∧ k ≤ floorLogAux a b fuel k := by
  intro fuel
  induction fuel with
  | zero => intro k h; simp only [floorLogAux]; exact ⟨h, Nat.le_refl _⟩
  | succ f ih =>
    intro k h
    simp only [floorLogAux]
    split
    · rename_i hle
      have := ih (k + 1) hle
      exact ⟨this.1, by omega⟩
    · exact ⟨h, Nat.le_refl _⟩

theorem le_two_pow_self (b n : Nat) (hb : 0 < b) : n ≤ b * 2 ^ n := by
  have : n < 2 ^ n := Nat.lt_two_pow_self
  calc n ≤ 2 ^ n := Nat.le_of_lt this
    _ ≤ b * 2 ^ n := Nat.le_mul_of_pos_left _ hb

/-- the last level really is the largest: max ≤ min·2^m -/
theorem poolM_spec (min max : Nat) (hmin : 0 < min) : max ≤ min * 2 ^ (poolM min max) := by
  have := ceilLogAux_spec max min max 0 (by simpa using le_two_pow_self min max hmin)
  exact this.1

theorem levelSize_ge (min max i : Nat) (hmin : 0 < min) (hi : i ≤ poolM min max) (x : Nat)
    (h1 : x ≤ min * 2 ^ i) (h2 : x ≤ max) : x ≤ levelSize min max i := by
  unfold levelSize; split <;> assumption

/-- readable form of the regenerated `findPool` -/
theorem findPool_eq (mn mx : Int) (np : Nat) (size : Int) :
    (Pool.findPool () mn mx np size).2 =
      if size > mx then none
      else if ceilLog2Ratio size mn < 0 then (if (0 : Int) > (np : Int) - 1 then none else some 0)
      else if ceilLog2Ratio size mn > (np : Int) - 1 then none else some (ceilLog2Ratio size mn) := by
  -- robust against equivalent rewrites of the source (e.g. `idx >= len` for `idx > len-1`, merged
  -- conditions): split every `if` of both sides and let linear arithmetic decide each leaf
  unfold Pool.findPool
  generalize ceilLog2Ratio size mn = q
  simp only [Bool.or_eq_true, decide_eq_true_eq]
  repeat' split
  all_goals first | rfl | omega | (exfalso; omega) | (simp_all; done) | (simp_all; omega)

theorem findPutPool_eq (mn mx : Int) (np : Nat) (c : Int) :
    (Pool.findPutPool () mn mx np c).2 =
      if c > mx then none else if c < mn then none
      else if floorLog2Ratio c mn < 0 then (if (0 : Int) > (np : Int) - 1 then none else some 0)
      else if floorLog2Ratio c mn > (np : Int) - 1 then none else some (floorLog2Ratio c mn) := by
  unfold Pool.findPutPool
  generalize floorLog2Ratio c mn = q
  simp only [Bool.or_eq_true, decide_eq_true_eq]
  repeat' split
  all_goals first | rfl | omega | (exfalso; omega) | (simp_all; done) | (simp_all; omega)

/-- Get: a buffer is taken from level `idx` only when the request fits in that level. -/
theorem get_fits (min max size : Nat) (hmin : 0 < min) (idx : Int)
    (h : (Pool.findPool () min max (npoolsOf min max) size).2 = some idx) :
    0 ≤ idx ∧ idx.toNat < npoolsOf min max ∧ size ≤ levelSize min max idx.toNat := by
  rw [findPool_eq] at h
  split at h
  · cases h
  rename_i hmax
  split at h
  · -- negative index (size = 0): clamped to level 0
    rename_i hneg
    split at h
    · cases h
    · cases h
      have hs0 : size = 0 := by
        unfold ceilLog2Ratio at hneg
        split at hneg
        · omega
        · split at hneg
          · omega
          · have : (0 : Int) ≤ Int.ofNat (ceilLogAux (size : Int).toNat (min : Int).toNat (size : Int).toNat 0) := Int.natCast_nonneg _
            omega
      subst hs0
      exact ⟨Int.le_refl _, by simp [npoolsOf], by simp⟩
  · rename_i hnneg
    split at h
    · cases h
    · cases h
      rename_i hle
      have hle' : ceilLog2Ratio size min ≤ (poolM min max : Int) := by
        simp only [npoolsOf] at hle; omega
      refine ⟨by omega, by simp only [npoolsOf]; omega, ?_⟩
      apply levelSize_ge min max _ hmin (by omega) size _ (by omega)
      unfold ceilLog2Ratio at hnneg hle' ⊢
      split
      · omega
      · split
        · rename_i h1 h2
          have : size ≤ min := by omega
          simp only [Int.toNat_zero, Nat.pow_zero, Nat.mul_one]; exact this
        · rename_i h1 h2
          have := (ceilLogAux_spec size min size 0 (by simpa using le_two_pow_self min size hmin)).1
          simpa using this

/-- Put: a buffer is stored in level `idx` only when its capacity covers that level. -/
theorem put_fits (min max c : Nat) (hmin : 0 < min) (idx : Int)
    (h : (Pool.findPutPool () min max (npoolsOf min max) c).2 = some idx) :
    0 ≤ idx ∧ idx.toNat < npoolsOf min max ∧ levelSize min max idx.toNat ≤ c := by
  rw [findPutPool_eq] at h
  split at h
  · cases h
  rename_i hmax
  split at h
  · cases h
  rename_i hmn
  have hfl : floorLog2Ratio c min = Int.ofNat (floorLogAux c min c 0) := by
    unfold floorLog2Ratio; split
    · omega
    · simp
  have hspec := floorLogAux_spec c min c 0 (by simp; omega)
  split at h
  · rename_i hneg
    rw [hfl] at hneg
    have : (0 : Int) ≤ Int.ofNat (floorLogAux c min c 0) := Int.natCast_nonneg _
    omega
  · split at h
    · cases h
    · cases h
      rename_i _ hle
      have hle' : floorLog2Ratio c min ≤ (poolM min max : Int) := by
        simp only [npoolsOf] at hle; omega
      rw [hfl] at hle' ⊢
      simp only [Int.ofNat_eq_natCast, Int.toNat_natCast] at hle' ⊢
      refine ⟨Int.natCast_nonneg _, by simp only [npoolsOf]; omega, ?_⟩
      unfold levelSize
      split
      · exact hspec.1
      · rename_i hlast
        have hidx : floorLogAux c min c 0 = poolM min max := by omega
        have := poolM_spec min max hmin
        rw [← hidx] at this
        exact Nat.le_trans this hspec.1

/-- Consequently Get returns a buffer of exactly the requested length: either freshly
    allocated with that length, or resliced from a level whose buffers all have capacity
    ≥ levelSize ≥ size (the invariant `put_fits` maintains). -/
theorem get_length (min max size : Nat) (hmin : 0 < min) :
    match poolGet min max size with
    | .fresh n => n = size
    | .pooled lv n => n = size ∧ size ≤ levelSize min max lv := by
  unfold poolGet
  cases h : (Pool.findPool () min max (npoolsOf min max) size).2 with
  | none => rfl
  | some idx => exact ⟨rfl, (get_fits min max size hmin idx h).2.2⟩

/-- non-vacuity / the shipped configuration: bufferPool = NewLimitedPool(512, 4096) -/
example : npoolsOf 512 4096 = 4 ∧ levelSize 512 4096 0 = 512 ∧ levelSize 512 4096 3 = 4096
    ∧ poolGet 512 4096 513 = .pooled 1 513 ∧ poolPut 512 4096 4000 = some 2 := by decide

/-- Regression witness D13 (fixed by 1c9b565): a two-owner state.  `zip` hands out a view of
    the pooled buffer (`shared := true`) – after the next `zip` the first result has changed. -/
def zipPrefix (pooled : List Nat) (data : List Nat) : List Nat × List Nat := (data, data)  -- (new pooled contents, result view = the same storage)
theorem d13_witness :
    let (pool1, r1) := zipPrefix [] [1, 2, 3]
    let (pool2, _) := zipPrefix pool1 [9, 9, 9]
    -- r1 is a view of the pooled storage, whose contents are now pool2:
    (r1 = pool1) ∧ pool2 ≠ [1, 2, 3] := by decide

/-- the tie: findPool / findPutPool were translated from the current source this run -/
theorem tie_pool : Gen.poolTieOk = true := by decide

end Rpcx.Props.C20

/-! ### ownership: what the pools' users may rely on
  (model `Rpcx.Own`: a pool hands out an object it holds or a fresh one; the discipline – a site
  writes only to what it owns and puts back only what it owns – is the assumption tied to the code by
  the hold-and-recheck runs of `harness c20` and the write-site facts of C08) -/
namespace Rpcx.Props.C20
open Rpcx.Own

def evOwner : Ev → Nat
  | .get o _ => o
  | .write o _ _ => o
  | .put o _ => o

/-- every event of the history respects the discipline in the state it happens in -/
def okRun : St → List Ev → Prop
  | _, [] => True
  | s, e :: rest => ok s e ∧ okRun (step s e) rest

theorem inv_run : ∀ (evs : List Ev) (s : St), Inv s → okRun s evs → Inv (evs.foldl step s) := by
  intro evs
  induction evs with
  | nil => intro s hi _; exact hi
  | cons e rest ih => intro s hi h; exact ih _ (inv_step s e hi h.1) h.2

/-- **never two owners**: in every reachable state an object has at most one owner -/
theorem exclusive (evs : List Ev) (h : okRun init evs) (b o1 o2 : Nat)
    (h1 : (b, o1) ∈ (evs.foldl step init).owned) (h2 : (b, o2) ∈ (evs.foldl step init).owned) : o1 = o2 := by
  have hi := inv_run evs init inv_init h
  have := eq_of_nodup_map_fst hi.owned_nodup h1 h2 rfl
  exact congrArg Prod.snd this

/-- what `Get` hands out is in nobody's hands -/
theorem get_fresh (s : St) (hi : Inv s) (o pick b o' : Nat) (hnew : (b, o) ∈ (step s (.get o pick)).owned)
    (hold : (b, o') ∈ s.owned) : (b, o) ∈ s.owned := by
  simp only [step] at hnew
  have hbm : b ∈ s.owned.map (·.1) := List.mem_map.mpr ⟨(b, o'), hold, rfl⟩
  cases hp : s.free[pick]? with
  | some x =>
    rw [hp] at hnew
    simp only [List.mem_cons] at hnew
    rcases hnew with h | h
    · have : b = x := congrArg Prod.fst h
      subst this
      exact absurd hbm (hi.disjoint b (List.mem_of_getElem? hp))
    · exact h
  | none =>
    rw [hp] at hnew
    simp only [List.mem_cons] at hnew
    rcases hnew with h | h
    · have : b = s.next := congrArg Prod.fst h
      subst this
      exact absurd (hi.owned_lt _ hbm) (Nat.lt_irrefl _)
    · exact h

/-- **held bytes stay put**: while `o` owns `b`, no event of another owner that respects the
    discipline changes the contents of `b` or takes it away -/
theorem held_step (s : St) (hi : Inv s) (b o : Nat) (hown : (b, o) ∈ s.owned) (e : Ev) (hok : ok s e)
    (hother : evOwner e ≠ o) : (step s e).mem b = s.mem b ∧ (b, o) ∈ (step s e).owned := by
  cases e with
  | get o' pick =>
    simp only [step]
    cases hp : s.free[pick]? <;> simp [hown]
  | write o' b' v =>
    have hne : b ≠ b' := by
      intro e; subst e
      have := eq_of_nodup_map_fst hi.owned_nodup hown hok rfl
      exact hother (congrArg Prod.snd this).symm
    simp [step, hne, hown]
  | put o' b' =>
    have hne : o ≠ o' := fun e => hother e.symm
    constructor
    · simp only [step]
    · simp only [step]
      apply List.mem_filter.mpr
      refine ⟨hown, ?_⟩
      simp [hne]

theorem held_run : ∀ (evs : List Ev) (s : St), Inv s → ∀ (b o : Nat), (b, o) ∈ s.owned → okRun s evs →
    (∀ e ∈ evs, evOwner e ≠ o) → (evs.foldl step s).mem b = s.mem b ∧ (b, o) ∈ (evs.foldl step s).owned := by
  intro evs
  induction evs with
  | nil => intro s _ b o h _ _; exact ⟨rfl, h⟩
  | cons e rest ih =>
    intro s hi b o hown hok hoth
    obtain ⟨h1, h2⟩ := held_step s hi b o hown e hok.1 (hoth e (by simp))
    obtain ⟨h3, h4⟩ := ih (step s e) (inv_step s e hi hok.1) b o h2 hok.2 (fun e' he' => hoth e' (List.mem_cons_of_mem _ he'))
    exact ⟨by rw [List.foldl_cons, h3, h1], h4⟩

/-- non-vacuity: two owners, a buffer recycled from one to the other -/
example : okRun init [.get 1 0, .write 1 0 7, .put 1 0, .get 2 0, .write 2 0 9, .get 1 0] := by
  simp [okRun, ok, step, init]

/-- the discipline matters: a put by a non-owner (a double put, a put of a buffer still in use)
    is exactly what `ok` excludes – after it one object is in two hands -/
example : (([.get 1 0, .put 1 0, .get 2 0, .put 1 0, .get 3 0] : List Ev).foldl step init).owned = [(0, 3), (0, 2)] := by
  decide

end Rpcx.Props.C20
