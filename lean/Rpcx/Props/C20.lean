import Rpcx.Model.Pool
/-
  C20 (byte pools): "Buffers handed out by the library's byte pools always have exactly the
  requested length" – theorems over the REGENERATED findPool / findPutPool.

  The pool invariant is: every buffer stored in level i has capacity ≥ levelSize i.
  * `put_fits`: Put stores a buffer of capacity c in level i only if levelSize i ≤ c
    (so the invariant is preserved by every Put, including foreign buffers of any capacity);
    fresh buffers made by a level have capacity levelSize i exactly.
  * `get_fits`: Get(size) takes from level i only if size ≤ levelSize i; under the invariant
    the reslice `(*buf)[:size]` is therefore in range: no panic and length exactly `size`;
    without a level it allocates exactly `size` bytes.  All for every 0 < min ≤ max, every size.
  The ownership half of the property (a result is never modified later) is an aliasing fact
  about util.Zip/Unzip/Encode checked on the implementation by `harness c20`
  (sequential hold-and-recheck and concurrent mixes); see `d13_witness` for the model of the
  defect that was fixed.
-/
namespace Rpcx.Props.C20
open Rpcx Rpcx.Gen

theorem ceilLogAux_spec (a b : Nat) : ∀ (fuel k : Nat), a ≤ b * 2 ^ (k + fuel) →
    a ≤ b * 2 ^ (ceilLogAux a b fuel k) ∧ k ≤ ceilLogAux a b fuel k
    ∧ (∀ j, k ≤ j → j < ceilLogAux a b fuel k → ¬ a ≤ b * 2 ^ j) := by
  intro fuel
  induction fuel with
  | zero => intro k h; simp only [ceilLogAux]; exact ⟨by simpa using h, Nat.le_refl _, fun j h1 h2 => by omega⟩
  | succ f ih =>
    intro k h
    simp only [ceilLogAux]
    split
    · rename_i hle; exact ⟨hle, Nat.le_refl _, fun j h1 h2 => by omega⟩
    · rename_i hnle
      have := ih (k + 1) (by rw [show k + 1 + f = k + (f + 1) by omega]; exact h)
      refine ⟨this.1, by omega, ?_⟩
      intro j h1 h2
      by_cases hj : j = k
      · subst hj; exact hnle
      · exact this.2.2 j (by omega) h2

theorem floorLogAux_spec (a b : Nat) : ∀ (fuel k : Nat), b * 2 ^ k ≤ a →
    b * 2 ^ (floorLogAux a b fuel k) ≤ a ∧ k ≤ floorLogAux a b fuel k := by
  intro fuel
  induction fuel with
  | zero => intro k h; simp only [floorLogAux]; exact ⟨h, Nat.le_refl _⟩
  | succ f ih =>
    intro k h
    simp only [floorLogAux]
    split
    · rename_i hle
      have := ih (k + 1) hle
      exact ⟨this.1, by omega⟩
    · exact ⟨h, Nat.le_refl _⟩

theorem le_two_pow_self (b n : Nat) (hb : 0 < b) : n ≤ b * 2 ^ n := by
  have : n < 2 ^ n := Nat.lt_two_pow_self
  calc n ≤ 2 ^ n := Nat.le_of_lt this
    _ ≤ b * 2 ^ n := Nat.le_mul_of_pos_left _ hb

/-- the last level really is the largest: max ≤ min·2^m -/
theorem poolM_spec (min max : Nat) (hmin : 0 < min) : max ≤ min * 2 ^ (poolM min max) := by
  have := ceilLogAux_spec max min max 0 (by simpa using le_two_pow_self min max hmin)
  exact this.1

theorem levelSize_ge (min max i : Nat) (hmin : 0 < min) (hi : i ≤ poolM min max) (x : Nat)
    (h1 : x ≤ min * 2 ^ i) (h2 : x ≤ max) : x ≤ levelSize min max i := by
  unfold levelSize; split <;> assumption

/-- readable form of the regenerated `findPool` -/
theorem findPool_eq (mn mx : Int) (np : Nat) (size : Int) :
    (Pool.findPool () mn mx np size).2 =
      if size > mx then none
      else if ceilLog2Ratio size mn < 0 then (if (0 : Int) > (np : Int) - 1 then none else some 0)
      else if ceilLog2Ratio size mn > (np : Int) - 1 then none else some (ceilLog2Ratio size mn) := by
  -- robust against equivalent rewrites of the source (e.g. `idx >= len` for `idx > len-1`, merged
  -- conditions): split every `if` of both sides and let linear arithmetic decide each leaf
  unfold Pool.findPool
  generalize ceilLog2Ratio size mn = q
  simp only [Bool.or_eq_true, decide_eq_true_eq]
  repeat' split
  all_goals first | rfl | omega | (exfalso; omega) | (simp_all; done) | (simp_all; omega)

theorem findPutPool_eq (mn mx : Int) (np : Nat) (c : Int) :
    (Pool.findPutPool () mn mx np c).2 =
      if c > mx then none else if c < mn then none
      else if floorLog2Ratio c mn < 0 then (if (0 : Int) > (np : Int) - 1 then none else some 0)
      else if floorLog2Ratio c mn > (np : Int) - 1 then none else some (floorLog2Ratio c mn) := by
  unfold Pool.findPutPool
  generalize floorLog2Ratio c mn = q
  simp only [Bool.or_eq_true, decide_eq_true_eq]
  repeat' split
  all_goals first | rfl | omega | (exfalso; omega) | (simp_all; done) | (simp_all; omega)

/-- Get: a buffer is taken from level `idx` only when the request fits in that level. -/
theorem get_fits (min max size : Nat) (hmin : 0 < min) (idx : Int)
    (h : (Pool.findPool () min max (npoolsOf min max) size).2 = some idx) :
    0 ≤ idx ∧ idx.toNat < npoolsOf min max ∧ size ≤ levelSize min max idx.toNat := by
  rw [findPool_eq] at h
  split at h
  · cases h
  rename_i hmax
  split at h
  · -- negative index (size = 0): clamped to level 0
    rename_i hneg
    split at h
    · cases h
    · cases h
      have hs0 : size = 0 := by
        unfold ceilLog2Ratio at hneg
        split at hneg
        · omega
        · split at hneg
          · omega
          · have : (0 : Int) ≤ Int.ofNat (ceilLogAux (size : Int).toNat (min : Int).toNat (size : Int).toNat 0) := Int.natCast_nonneg _
            omega
      subst hs0
      exact ⟨Int.le_refl _, by simp [npoolsOf], by simp⟩
  · rename_i hnneg
    split at h
    · cases h
    · cases h
      rename_i hle
      have hle' : ceilLog2Ratio size min ≤ (poolM min max : Int) := by
        simp only [npoolsOf] at hle; omega
      refine ⟨by omega, by simp only [npoolsOf]; omega, ?_⟩
      apply levelSize_ge min max _ hmin (by omega) size _ (by omega)
      unfold ceilLog2Ratio at hnneg hle' ⊢
      split
      · omega
      · split
        · rename_i h1 h2
          have : size ≤ min := by omega
          simp only [Int.toNat_zero, Nat.pow_zero, Nat.mul_one]; exact this
        · rename_i h1 h2
          have := (ceilLogAux_spec size min size 0 (by simpa using le_two_pow_self min size hmin)).1
          simpa using this

/-- Put: a buffer is stored in level `idx` only when its capacity covers that level. -/
theorem put_fits (min max c : Nat) (hmin : 0 < min) (idx : Int)
    (h : (Pool.findPutPool () min max (npoolsOf min max) c).2 = some idx) :
    0 ≤ idx ∧ idx.toNat < npoolsOf min max ∧ levelSize min max idx.toNat ≤ c := by
  rw [findPutPool_eq] at h
  split at h
  · cases h
  rename_i hmax
  split at h
  · cases h
  rename_i hmn
  have hfl : floorLog2Ratio c min = Int.ofNat (floorLogAux c min c 0) := by
    unfold floorLog2Ratio; split
    · omega
    · simp
  have hspec := floorLogAux_spec c min c 0 (by simp; omega)
  split at h
  · rename_i hneg
    rw [hfl] at hneg
    have : (0 : Int) ≤ Int.ofNat (floorLogAux c min c 0) := Int.natCast_nonneg _
    omega
  · split at h
    · cases h
    · cases h
      rename_i _ hle
      have hle' : floorLog2Ratio c min ≤ (poolM min max : Int) := by
        simp only [npoolsOf] at hle; omega
      rw [hfl] at hle' ⊢
      simp only [Int.ofNat_eq_natCast, Int.toNat_natCast] at hle' ⊢
      refine ⟨Int.natCast_nonneg _, by simp only [npoolsOf]; omega, ?_⟩
      unfold levelSize
      split
      · exact hspec.1
      · rename_i hlast
        have hidx : floorLogAux c min c 0 = poolM min max := by omega
        have := poolM_spec min max hmin
        rw [← hidx] at this
        exact Nat.le_trans this hspec.1

/-- Consequently Get returns a buffer of exactly the requested length: either freshly
    allocated with that length, or resliced from a level whose buffers all have capacity
    ≥ levelSize ≥ size (the invariant `put_fits` maintains). -/
theorem get_length (min max size : Nat) (hmin : 0 < min) :
    match poolGet min max size with
    | .fresh n => n = size
    | .pooled lv n => n = size ∧ size ≤ levelSize min max lv := by
  unfold poolGet
  cases h : (Pool.findPool () min max (npoolsOf min max) size).2 with
  | none => rfl
  | some idx => exact ⟨rfl, (get_fits min max size hmin idx h).2.2⟩

/-- non-vacuity / the shipped configuration: bufferPool = NewLimitedPool(512, 4096) -/
example : npoolsOf 512 4096 = 4 ∧ levelSize 512 4096 0 = 512 ∧ levelSize 512 4096 3 = 4096
    ∧ poolGet 512 4096 513 = .pooled 1 513 ∧ poolPut 512 4096 4000 = some 2 := by decide

/-- Regression witness D13 (fixed by 1c9b565): a two-owner state.  `zip` hands out a view of
    the pooled buffer (`shared := true`) – after the next `zip` the first result has changed. -/
def zipPrefix (pooled : List Nat) (data : List Nat) : List Nat × List Nat := (data, data)  -- (new pooled contents, result view = the same storage)
theorem d13_witness :
    let (pool1, r1) := zipPrefix [] [1, 2, 3]
    let (pool2, _) := zipPrefix pool1 [9, 9, 9]
    -- r1 is a view of the pooled storage, whose contents are now pool2:
    (r1 = pool1) ∧ pool2 ≠ [1, 2, 3] := by decide

/-- the tie: findPool / findPutPool were translated from the current source this run -/
theorem tie_pool : Gen.poolTieOk = true := by decide

end Rpcx.Props.C20
