import Rpcx.Model.Atomic
import Rpcx.Lemmas.MuxInv
import Rpcx.Gen.Preds
/-
  C03: replies reach exactly the call that asked, in any arrival order – theorems about the
  reader's dispatch step of the multiplexer model (`step s (.frame f)`), whose server-message
  classification is checked against the expression REGENERATED from client.go
  (`Gen.isServerMessage`).
-/
namespace Rpcx.Props.C03
open Rpcx Rpcx.Mux

/-- the model's classification is the regenerated source expression -/
theorem classification_is_source (f : Frame) :
    f.isServerMessage = Gen.isServerMessage (if f.isRequest then Gen.C.MessageType_Request else Gen.C.MessageType_Response)
      f.heartbeat f.oneway := by
  cases f with
  | mk seq isRequest hb ow isErr tag dec =>
    cases isRequest <;> cases hb <;> cases ow <;>
      simp [Frame.isServerMessage, Gen.isServerMessage, Gen.C.MessageType_Request, Gen.C.MessageType_Response]

/-- dispatching a frame never ends the reader: no per-call condition tears the connection down -/
theorem frame_keeps_running (s : St) (f : Frame) (hs : s.shutdown = false) : (step s (.frame f)).shutdown = false := by
  simp only [step]
  split
  · exact hs
  · split
    · exact hs
    · split <;> exact hs

/-- Routing, hit: a response whose sequence number is pending completes exactly that call with
    the outcome the frame carries, removes exactly that entry, and touches no other record. -/
theorem route_hit (s : St) (f : Frame) (c : Nat) (hs : s.shutdown = false) (hm : f.isServerMessage = false)
    (hl : lookup s.pending f.seq = some c) :
    (step s (.frame f)).pending = erase s.pending f.seq
    ∧ (∀ v, v ≠ c → (step s (.frame f)).calls[v]? = s.calls[v]?)
    ∧ (∀ r, s.calls[c]? = some r →
        ∃ r', (step s (.frame f)).calls[c]? = some r' ∧ r'.outcome = some (frameOutcome r f) ∧ r'.signals = r.signals + 1)
    ∧ (step s (.frame f)).chan = s.chan := by
  simp only [step, hs, hm, hl, Bool.false_eq_true, if_false]
  refine ⟨trivial, ?_, ?_, trivial⟩
  · intro v hv; rw [signal_get]; simp [hv]
  · intro r hr
    refine ⟨bump (frameOutcome r f) r, ?_, by simp [bump], by simp [bump]⟩
    rw [signal_get]; simp [hr]

/-- …where the outcome is the frame's own: for a call issued with Go/Call and a reply value, the
    service error text, the decoded reply, or a decoding error of ITS reply; for a raw call
    (SendRaw) the service error text or the payload bytes as they are -/
theorem frameOutcome_plain (r : CallRec) (f : Frame) (hr : r.raw = false) (ho : r.oneway = false) :
    frameOutcome r f = outcomeOf f := by simp [frameOutcome, hr, ho]

theorem frameOutcome_raw (r : CallRec) (f : Frame) (hr : r.raw = true) :
    frameOutcome r f = if f.isError then .svcErr f.tag else .reply f.tag := by simp [frameOutcome, hr]

/-- Routing, miss: a response carrying an unknown or already-completed sequence number changes
    nothing at all. -/
theorem route_miss (s : St) (f : Frame) (hm : f.isServerMessage = false) (hl : lookup s.pending f.seq = none) :
    step s (.frame f) = s := by
  simp only [step, hm, hl, Bool.false_eq_true, if_false]
  split <;> rfl

/-- Server-initiated messages never complete or alter any call – even with a sequence number
    equal to a pending call's – and are handed to the message channel in arrival order. -/
theorem route_push (s : St) (f : Frame) (hs : s.shutdown = false) (hm : f.isServerMessage = true) :
    (step s (.frame f)).pending = s.pending ∧ (step s (.frame f)).calls = s.calls
    ∧ (step s (.frame f)).chan = s.chan ++ [f] := by
  simp [step, hs, hm]

/-- a run of frames only (the reader working through its input) -/
def feed (s : St) (fs : List Frame) : St := run s (fs.map Ev.frame)

theorem feed_chan (s : St) (fs : List Frame) (hs : s.shutdown = false) :
    (feed s fs).chan = s.chan ++ fs.filter (·.isServerMessage) ∧ (feed s fs).shutdown = false := by
  induction fs generalizing s with
  | nil => simp [feed, run, hs]
  | cons f rest ih =>
    have hsd : (step s (.frame f)).shutdown = false := frame_keeps_running s f hs
    have := ih (step s (.frame f)) hsd
    simp only [feed, List.map_cons, run, List.foldl_cons] at this ⊢
    rw [this.1]
    refine ⟨?_, this.2⟩
    by_cases hm : f.isServerMessage = true
    · simp [step, hs, hm]
    · have hm' : f.isServerMessage = false := by simpa using hm
      simp only [step, hs, hm', Bool.false_eq_true, if_false, List.filter_cons]
      split <;> simp

/-- Any arrival order: whatever frames arrive, in whatever order and with whatever duplicates,
    unknown sequence numbers and pushes mixed in – a pending two-way call whose sequence number
    `q` occurs among the non-push frames ends up with the outcome of the FIRST such frame and
    exactly one signal; if none occurs it is untouched and still pending. -/
theorem any_order (s : St) (hi : Inv s) (hs : s.shutdown = false) (q c : Nat) (r : CallRec)
    (hp : (q, c) ∈ s.pending) (hr : s.calls[c]? = some r) (ho : r.oneway = false) :
    ∀ fs : List Frame,
      match fs.find? (fun f => !f.isServerMessage && f.seq == q) with
      | some f => ∃ r', (feed s fs).calls[c]? = some r' ∧ r'.outcome = some (frameOutcome r f) ∧ r'.signals = 1
                    ∧ (q, c) ∉ (feed s fs).pending
      | none => (feed s fs).calls[c]? = some r ∧ (q, c) ∈ (feed s fs).pending := by
  intro fs
  induction fs generalizing s r with
  | nil => simp [feed, run, hr, hp]
  | cons f rest ih =>
    have hsd : (step s (.frame f)).shutdown = false := frame_keeps_running s f hs
    have hi' := inv_step s hi (.frame f)
    obtain ⟨r0, hr0, hsig0, _⟩ := hi.pend q c hp
    rw [hr] at hr0; cases hr0
    simp only [List.find?_cons]
    by_cases hmatch : (!f.isServerMessage && f.seq == q) = true
    · -- this frame answers our call
      simp only [hmatch]
      have hm : f.isServerMessage = false := by simp at hmatch; exact hmatch.1
      have hq : f.seq = q := by simp at hmatch; exact hmatch.2
      have hl : lookup s.pending f.seq = some c := by rw [hq]; exact lookup_of_mem hi.keys hp
      obtain ⟨h1, h2, h3, _⟩ := route_hit s f c hs hm hl
      obtain ⟨r', hr', ho', hs'⟩ := h3 r hr
      -- afterwards the call is no longer pending, so nothing later touches it
      have hnp : ∀ q', (q', c) ∉ (step s (.frame f)).pending := by
        intro q' hmem
        obtain ⟨x, hx, hx0, _⟩ := hi'.pend q' c hmem
        rw [hr'] at hx; cases hx
        omega
      have stable : ∀ (fs : List Frame) (t : St), Inv t → t.shutdown = false → (∀ q', (q', c) ∉ t.pending) →
          (feed t fs).calls[c]? = t.calls[c]? ∧ (∀ q', (q', c) ∉ (feed t fs).pending) := by
        intro fs
        induction fs with
        | nil => intro t _ _ hn; exact ⟨rfl, hn⟩
        | cons g gs ihg =>
          intro t ht hts hn
          have hts' : (step t (.frame g)).shutdown = false := frame_keeps_running t g hts
          have key : (step t (.frame g)).calls[c]? = t.calls[c]? ∧ ∀ q', (q', c) ∉ (step t (.frame g)).pending := by
            by_cases hg : g.isServerMessage = true
            · obtain ⟨a, b, _⟩ := route_push t g hts hg
              rw [a, b]; exact ⟨rfl, hn⟩
            · have hg' : g.isServerMessage = false := by simpa using hg
              cases hlg : lookup t.pending g.seq with
              | none => rw [route_miss t g hg' hlg]; exact ⟨rfl, hn⟩
              | some c2 =>
                obtain ⟨a, b, _, _⟩ := route_hit t g c2 hts hg' hlg
                have hne : c ≠ c2 := by intro e; subst e; exact hn g.seq (lookup_some hlg)
                refine ⟨b c hne, ?_⟩
                intro q' hmem
                rw [a] at hmem
                exact hn q' (mem_erase.mp hmem).1
          have := ihg (step t (.frame g)) (inv_step t ht (.frame g)) hts' key.2
          simp only [feed, List.map_cons, run, List.foldl_cons] at this ⊢
          exact ⟨by rw [this.1, key.1], this.2⟩
      obtain ⟨e1, e2⟩ := stable rest (step s (.frame f)) hi' hsd hnp
      simp only [feed, List.map_cons, run, List.foldl_cons] at e1 e2 ⊢
      exact ⟨r', by rw [e1, hr'], ho', by omega, e2 q⟩
    · -- some other frame: our call is untouched and still pending
      have hmatch' : (!f.isServerMessage && f.seq == q) = false := by simpa using hmatch
      simp only [hmatch']
      have keep : (step s (.frame f)).calls[c]? = some r ∧ (q, c) ∈ (step s (.frame f)).pending := by
        by_cases hg : f.isServerMessage = true
        · obtain ⟨a, b, _⟩ := route_push s f hs hg
          rw [a, b]; exact ⟨hr, hp⟩
        · have hg' : f.isServerMessage = false := by simpa using hg
          have hne : f.seq ≠ q := by
            intro e; simp [hg', e] at hmatch'
          cases hlg : lookup s.pending f.seq with
          | none => rw [route_miss s f hg' hlg]; exact ⟨hr, hp⟩
          | some c2 =>
            obtain ⟨a, b, _, _⟩ := route_hit s f c2 hs hg' hlg
            have hc : c ≠ c2 := by
              intro e; subst e
              have := lookup_of_mem hi.keys hp
              -- (q, c) and (f.seq, c) both pending: ids are distinct, so q = f.seq
              have hm2 := lookup_some hlg
              obtain ⟨x, hx, _, hpx⟩ := hi.pend f.seq c hm2
              obtain ⟨y, hy, _, hpy⟩ := hi.pend q c hp
              rw [hx] at hy; cases hy
              rw [hpx] at hpy; cases hpy
              exact hne rfl
            refine ⟨by rw [b c hc]; exact hr, ?_⟩
            rw [a]
            exact mem_erase.mpr ⟨hp, by simp only; exact fun e => hne e.symm⟩
      have := ih (step s (.frame f)) hi' hsd r keep.2 keep.1 ho
      simp only [feed, List.map_cons, run, List.foldl_cons] at this ⊢
      exact this

/-- sequence numbers handed out by `register` are pairwise distinct (the counter is read and
    incremented in one section): distinct calls never share a pending key -/
theorem seqs_distinct (oneways : List (Bool × Bool)) (evs : List Ev) :
    ((run (init oneways) evs).pending.map (·.1)).Nodup :=
  (inv_run _ (inv_init oneways) evs).keys

/-- the tie: the classification expression was translated from the current source this run -/
theorem tie_preds : tieItem Gen.predsTie "Client.input:isServerMessage" = true := by decide

/-! ### the model's atomic steps are the code's critical sections (regenerated facts) -/

/-- the critical-section facts were extracted from the current source this run -/
theorem tie_atomic : tieItem Gen.atomicTie "atomic:client.Client.send" = true := by decide

/-- registration is one critical section of `send`: the shutdown/closing test, the sequence
    number increment and the insertion into the pending table happen under one acquisition of the
    client mutex (so sequence numbers are unique per registered call and a call is never
    registered after the table was drained) -/
theorem tie_register_atomic :
    Atomic.sameRegion .clientSend .clientMutex [.testShutdown, .testClosing, .setSeq, .putPending] = true := by decide

/-- the client's sequence counter is advanced in exactly one place – the registration inside `send` –
    and never moved otherwise (not handed back when a call fails after registration, not touched by
    the reader, by `call`, by `Close` or by `SendRaw`, which uses the caller's own number): the
    model's `nextSeq` only grows, which is what `seqs_distinct` rests on -/
theorem tie_seq_advanced_once :
    Atomic.countOf .clientSend .setSeq = 1 ∧ Atomic.countOf .clientInput .setSeq = 0 ∧ Atomic.countOf .clientCall .setSeq = 0
      ∧ Atomic.countOf .clientClose .setSeq = 0 ∧ Atomic.countOf .clientSendRaw .setSeq = 0 := by decide

end Rpcx.Props.C03
