import Rpcx.Model.FailMode
/-
  C10: the fail-mode contract, as theorems about the line-by-line model of
  xClient.Call / SendRaw (Rpcx/Model/FailMode.lean), for EVERY retry count, server count,
  dial script and outcome script (no bound on their lengths).

  * `bound_*`: at most retries+1 deliveries (Failtry, Failover), at most 1 (Failfast).
  * `truthful_*`: the result is `ok d` only if the last delivery was answered `ok` and `d` is
    that delivery (so the caller gets that attempt's reply); the result is never
    "nil error without a reply" (`never_nil_*`) – the outcome the unfixed SendRaw produced.
  * `terminal_*`: every delivery before the last ended with `lost` – a service error, a
    cancelled context or an expired deadline ends the call at once.
  * `failtry_same`: Failtry re-sends to the server first selected.
  * `rr_next_differs`: the selector consulted again by Failover is round-robin, which yields
    a different server whenever n ≥ 2.
  * `backup_*`: Failbackup dispatches at most two requests, the second only after the timer,
    and is truthful.
-/
namespace Rpcx.Props.C10
open Rpcx Rpcx.FM

/-! small facts about the helpers -/

@[simp] theorem getCached_deliveries (s : St) (k : Nat) : (getCached s k).1.deliveries = s.deliveries := by
  unfold getCached; split <;> (try rfl) <;> split <;> rfl
@[simp] theorem getCached_log (s : St) (k : Nat) : (getCached s k).1.log = s.log := by
  unfold getCached; split <;> (try rfl) <;> split <;> rfl
@[simp] theorem removeClient_deliveries (s : St) (k : Nat) : (removeClient s k).deliveries = s.deliveries := rfl
@[simp] theorem removeClient_log (s : St) (k : Nat) : (removeClient s k).log = s.log := rfl
@[simp] theorem selectClient_deliveries (s : St) : (selectClient s).1.deliveries = s.deliveries := by
  unfold selectClient; split <;> simp
@[simp] theorem selectClient_log (s : St) : (selectClient s).1.log = s.log := by
  unfold selectClient; split <;> simp
theorem deliver_deliveries (s : St) (k : Nat) : (deliver s k).1.deliveries = k :: s.deliveries := by
  unfold deliver; split <;> rfl
theorem deliver_log (s : St) (k : Nat) : (deliver s k).1.log = (deliver s k).2 :: s.log := by
  unfold deliver; split <;> rfl

/-- a held client or a recorded error: what `selectClient`/`getCachedClient` guarantee -/
theorem getCached_has_or_err (s : St) (k : Nat) : (getCached s k).2.1 = true ∨ (getCached s k).2.2 ≠ none := by
  unfold getCached; split
  · left; rfl
  · split <;> simp
theorem selectClient_has_or_err (s : St) : (selectClient s).2.2.1 = true ∨ (selectClient s).2.2.2 ≠ none := by
  unfold selectClient; split
  · right; simp
  · exact getCached_has_or_err _ _

theorem errOf_none {o : Outcome} (h : errOf o = none) : o = .ok := by cases o <;> simp [errOf] at h ⊢
theorem errOf_lost {o : Outcome} {x : Err} (h : errOf o = some x) (h1 : ctxErr x = false) (h2 : x ≠ .svc) : o = .lost := by
  cases o <;> simp [errOf] at h <;> subst h <;> simp [ctxErr] at h1 h2 ⊢

/-- what every exit of the retry loops satisfies, relative to the state `s0` it started from:
    `newD`/`newL` are the deliveries made and their outcomes, most recent first -/
def Exit (s0 : St) (it : Nat) (sameServer : Option Nat) (r : St × Res) : Prop :=
  ∃ newD newL, r.1.deliveries = newD ++ s0.deliveries ∧ r.1.log = newL ++ s0.log
    ∧ newD.length = newL.length ∧ newL.length ≤ it
    ∧ (∀ o ∈ newL.drop 1, o = .lost)
    ∧ (∀ d, r.2 = .ok d → newL.head? = some .ok ∧ d + 1 = r.1.deliveries.length)
    ∧ r.2 ≠ .nilNoReply
    ∧ (∀ k, sameServer = some k → ∀ d ∈ newD, d = k)

theorem exit_step {s s3 : St} {it : Nat} {k : Nat} {ss : Option Nat} {r : St × Res} {o : Outcome}
    (hd : s3.deliveries = k :: s.deliveries) (hl : s3.log = o :: s.log) (ho : o = .lost)
    (hk : ∀ k', ss = some k' → k = k')
    (h : Exit s3 it ss r) : Exit s (it + 1) ss r := by
  obtain ⟨newD, newL, h1, h2, h3, h4, h5, h6, h7, h8⟩ := h
  refine ⟨newD ++ [k], newL ++ [o], by rw [h1, hd]; simp, by rw [h2, hl]; simp, by simp [h3], by simp; omega, ?_, ?_, h7, ?_⟩
  · intro x hx
    cases newL with
    | nil => simp at hx
    | cons a t =>
      simp only [List.cons_append, List.drop_succ_cons, List.drop_zero] at hx
      rcases List.mem_append.mp hx with hx | hx
      · exact h5 x (by simpa using hx)
      · simp at hx; rw [hx, ho]
  · intro d hdd
    obtain ⟨a, b⟩ := h6 d hdd
    refine ⟨?_, b⟩
    cases newL with
    | nil => simp at a
    | cons x t => simpa using a
  · intro k' hk' d hdm
    rcases List.mem_append.mp hdm with hdm | hdm
    · exact h8 k' hk' d hdm
    · simp at hdm; rw [hdm]; exact hk k' hk'

theorem exit_same {s s' : St} {it : Nat} {ss : Option Nat} {r : St × Res}
    (hd : s'.deliveries = s.deliveries) (hl : s'.log = s.log) (h : Exit s' it ss r) : Exit s (it + 1) ss r := by
  obtain ⟨newD, newL, h1, h2, h3, h4, h5, h6, h7, h8⟩ := h
  exact ⟨newD, newL, by rw [h1, hd], by rw [h2, hl], h3, by omega, h5, h6, h7, h8⟩

/-- an exit right after a delivery with outcome `o` -/
theorem exit_now (s s1 : St) (it : Nat) (k : Nat) (ss : Option Nat) (o : Outcome) (res : Res)
    (hd : s1.deliveries = k :: s.deliveries) (hl : s1.log = o :: s.log)
    (hk : ∀ k', ss = some k' → k = k')
    (hres : (res = .ok (s1.deliveries.length - 1) ∧ o = .ok) ∨ (∃ x, res = .err x)) :
    Exit s (it + 1) ss (s1, res) := by
  refine ⟨[k], [o], by simp [hd], by simp [hl], rfl, by simp, by simp, ?_, ?_, ?_⟩
  · intro d hdd
    rcases hres with ⟨h1, h2⟩ | ⟨x, h1⟩
    · simp only at hdd; rw [h1] at hdd; cases hdd
      simp [h2, hd]
    · simp only at hdd; rw [h1] at hdd; cases hdd
  · rcases hres with ⟨h1, _⟩ | ⟨x, h1⟩ <;> simp [h1]
  · intro k' hk' d hdm; simp at hdm; rw [hdm]; exact hk k' hk'

theorem failtry_exit : ∀ (it : Nat) (s : St) (k : Nat) (has : Bool) (err e : Option Err),
    (err ≠ none ∨ (has = true ∧ 0 < it)) →
    Exit s it (some k) (failtryLoop it s k has err e) := by
  intro it
  induction it with
  | zero =>
    intro s k has err e h
    have herr : err ≠ none := by rcases h with h | h; exact h; omega
    refine ⟨[], [], by simp [failtryLoop], by simp [failtryLoop], rfl, by simp, by simp, ?_, ?_, by simp⟩
    · intro d hd; simp only [failtryLoop, finish] at hd
      cases err with
      | none => exact absurd rfl herr
      | some x => cases hd
    · simp only [failtryLoop, finish]
      cases err with
      | none => exact absurd rfl herr
      | some x => simp
  | succ it ih =>
    intro s k has err e h
    simp only [failtryLoop]
    cases has with
    | true =>
      simp only [if_true]
      have hd := deliver_deliveries s k
      have hl := deliver_log s k
      cases ho : errOf (deliver s k).2 with
      | none =>
        simp only []
        exact exit_now s _ it k (some k) _ _ hd hl (by intro k' h; cases h; rfl) (Or.inl ⟨rfl, errOf_none ho⟩)
      | some x =>
        simp only []
        by_cases hc : ctxErr x = true
        · simp only [hc, if_true]
          exact exit_now s _ it k (some k) _ _ hd hl (by intro k' h; cases h; rfl) (Or.inr ⟨x, rfl⟩)
        · simp only [hc, Bool.false_eq_true, if_false]
          by_cases hs : x = .svc
          · simp only [hs, if_true]
            exact exit_now s _ it k (some k) _ _ hd hl (by intro k' h; cases h; rfl) (Or.inr ⟨_, rfl⟩)
          · simp only [hs, if_false]
            have hlost := errOf_lost ho (by simpa using hc) hs
            apply exit_step (k := k) (o := (deliver s k).2) _ _ hlost (by intro k' h; cases h; rfl)
              (ih _ k _ (some x) _ (Or.inl (by simp)))
            · simp only [getCached_deliveries]; split <;> simp [hd]
            · simp only [getCached_log]; split <;> simp [hl]
    | false =>
      simp only [Bool.false_eq_true, if_false]
      have herr : err ≠ none := by rcases h with h | h; exact h; simp at h
      apply exit_same _ _ (ih _ k _ err _ (Or.inl herr))
      · simp only [getCached_deliveries]; split <;> (try split) <;> simp
      · simp only [getCached_log]; split <;> (try split) <;> simp

theorem failover_exit : ∀ (it : Nat) (s : St) (k : Nat) (has : Bool) (err e : Option Err),
    (err ≠ none ∨ (has = true ∧ 0 < it)) →
    Exit s it none (failoverLoop it s k has err e) := by
  intro it
  induction it with
  | zero =>
    intro s k has err e h
    have herr : err ≠ none := by rcases h with h | h; exact h; omega
    refine ⟨[], [], by simp [failoverLoop], by simp [failoverLoop], rfl, by simp, by simp, ?_, ?_, by simp⟩
    · intro d hd; simp only [failoverLoop, finish] at hd
      cases err with
      | none => exact absurd rfl herr
      | some x => cases hd
    · simp only [failoverLoop, finish]
      cases err with
      | none => exact absurd rfl herr
      | some x => simp
  | succ it ih =>
    intro s k has err e h
    simp only [failoverLoop]
    cases has with
    | true =>
      simp only [if_true]
      have hd := deliver_deliveries s k
      have hl := deliver_log s k
      cases ho : errOf (deliver s k).2 with
      | none =>
        simp only []
        exact exit_now s _ it k none _ _ hd hl (by intro k' h; cases h) (Or.inl ⟨rfl, errOf_none ho⟩)
      | some x =>
        simp only []
        by_cases hc : ctxErr x = true
        · simp only [hc, if_true]
          exact exit_now s _ it k none _ _ hd hl (by intro k' h; cases h) (Or.inr ⟨x, rfl⟩)
        · simp only [hc, Bool.false_eq_true, if_false]
          by_cases hs : x = .svc
          · simp only [hs, if_true]
            exact exit_now s _ it k none _ _ hd hl (by intro k' h; cases h) (Or.inr ⟨_, rfl⟩)
          · simp only [hs, if_false]
            have hlost := errOf_lost ho (by simpa using hc) hs
            apply exit_step (k := k) (o := (deliver s k).2) _ _ hlost (by intro k' h; cases h)
              (ih _ _ _ (some x) _ (Or.inl (by simp)))
            · simp only [selectClient_deliveries]; split <;> simp [hd]
            · simp only [selectClient_log]; split <;> simp [hl]
    | false =>
      simp only [Bool.false_eq_true, if_false]
      have herr : err ≠ none := by rcases h with h | h; exact h; simp at h
      apply exit_same _ _ (ih _ _ _ err _ (Or.inl herr))
      · simp only [selectClient_deliveries]; split <;> (try split) <;> simp
      · simp only [selectClient_log]; split <;> (try split) <;> simp

theorem xcallAfter_contract (mode : Mode) (retries : Nat) (s : St) (k : Nat) (has : Bool) (err : Option Err)
    (hsel : has = true ∨ err ≠ none) :
    ∃ newD newL, (xcallAfter mode retries s k has err).1.deliveries = newD ++ s.deliveries
      ∧ (xcallAfter mode retries s k has err).1.log = newL ++ s.log ∧ newD.length = newL.length
      ∧ newL.length ≤ (if mode = .failfast then 1 else retries + 1)
      ∧ (∀ o ∈ newL.drop 1, o = .lost)
      ∧ (∀ d, (xcallAfter mode retries s k has err).2 = .ok d → newL.head? = some .ok ∧ d + 1 = (xcallAfter mode retries s k has err).1.deliveries.length)
      ∧ (xcallAfter mode retries s k has err).2 ≠ .nilNoReply := by
  unfold xcallAfter
  cases err with
  | some x =>
    simp only []
    by_cases hm : mode = .failfast ∨ ctxErr x = true
    · simp only [hm, if_true]
      exact ⟨[], [], by simp, by simp, rfl, by split <;> simp, by simp, (by intro d h; cases h), (by simp)⟩
    · simp only [hm, if_false]
      cases mode with
      | failfast => simp at hm
      | failtry =>
        obtain ⟨nD, nL, h1, h2, h3, h4, h5, h6, h7, _⟩ := failtry_exit (retries + 1) s k has (some x) none (Or.inl (by simp))
        exact ⟨nD, nL, h1, h2, h3, by simpa using h4, h5, h6, h7⟩
      | failover =>
        obtain ⟨nD, nL, h1, h2, h3, h4, h5, h6, h7, _⟩ := failover_exit (retries + 1) s k has (some x) none (Or.inl (by simp))
        exact ⟨nD, nL, h1, h2, h3, by simpa using h4, h5, h6, h7⟩
  | none =>
    simp only []
    have hhas : has = true := by
      rcases hsel with h | h
      · exact h
      · exact absurd rfl h
    cases mode with
    | failtry =>
      obtain ⟨nD, nL, h1, h2, h3, h4, h5, h6, h7, _⟩ := failtry_exit (retries + 1) s k has none none (Or.inr ⟨hhas, by omega⟩)
      exact ⟨nD, nL, h1, h2, h3, by simpa using h4, h5, h6, h7⟩
    | failover =>
      obtain ⟨nD, nL, h1, h2, h3, h4, h5, h6, h7, _⟩ := failover_exit (retries + 1) s k has none none (Or.inr ⟨hhas, by omega⟩)
      exact ⟨nD, nL, h1, h2, h3, by simpa using h4, h5, h6, h7⟩
    | failfast =>
      simp only [hhas, if_true]
      have hd := deliver_deliveries s k
      have hl := deliver_log s k
      cases ho : errOf (deliver s k).2 with
      | none =>
        simp only []
        refine ⟨[k], [(deliver s k).2], by rw [hd]; simp, by rw [hl]; simp, rfl, by simp, by simp, ?_, by simp⟩
        intro d h; cases h
        simp [errOf_none ho, hd]
      | some x =>
        simp only []
        refine ⟨[k], [(deliver s k).2], ?_, ?_, rfl, by simp, by simp, (by intro d h; cases h), (by simp)⟩
        · split <;> simp [hd]
        · split <;> simp [hl]

/-- The contract for `xClient.Call` / `SendRaw`: every mode, every retry count, every script.
    `newL` lists the outcomes of the deliveries made by this call, most recent first. -/
theorem xcall_contract (mode : Mode) (retries : Nat) (s : St) :
    ∃ newD newL, (xcall mode retries s).1.deliveries = newD ++ s.deliveries
      ∧ (xcall mode retries s).1.log = newL ++ s.log ∧ newD.length = newL.length
      -- bounded attempts
      ∧ newL.length ≤ (if mode = .failfast then 1 else retries + 1)
      -- a service error / cancel / deadline (anything but `lost`) is the last delivery
      ∧ (∀ o ∈ newL.drop 1, o = .lost)
      -- truthful: success only if the last delivery was answered ok, with that delivery's reply
      ∧ (∀ d, (xcall mode retries s).2 = .ok d → newL.head? = some .ok ∧ d + 1 = (xcall mode retries s).1.deliveries.length)
      -- never "nil error without a reply"
      ∧ (xcall mode retries s).2 ≠ .nilNoReply := by
  obtain ⟨nD, nL, h1, h2, h3, h4, h5, h6, h7⟩ :=
    xcallAfter_contract mode retries (selectClient s).1 (selectClient s).2.1 (selectClient s).2.2.1 (selectClient s).2.2.2
      (selectClient_has_or_err s)
  exact ⟨nD, nL, by rw [xcall, h1, selectClient_deliveries], by rw [xcall, h2, selectClient_log], h3, h4, h5, h6, h7⟩

/-- Failtry re-sends to the server first selected. -/
theorem failtry_same (retries : Nat) (s : St) (k : Nat) (has : Bool) (err e : Option Err)
    (h : err ≠ none ∨ (has = true ∧ 0 < retries + 1)) :
    ∃ newD, (failtryLoop (retries + 1) s k has err e).1.deliveries = newD ++ s.deliveries ∧ ∀ d ∈ newD, d = k := by
  obtain ⟨nD, _, h1, _, _, _, _, _, _, h8⟩ := failtry_exit (retries + 1) s k has err e h
  exact ⟨nD, h1, h8 k rfl⟩

theorem selectClient_k (s : St) (h0 : s.n ≠ 0) : (selectClient s).2.1 = s.rr % s.n := by
  simp [selectClient, h0]
theorem selectClient_rr (s : St) (h0 : s.n ≠ 0) :
    (selectClient s).1.rr = s.rr % s.n + 1 ∧ (selectClient s).1.n = s.n := by
  simp only [selectClient, h0, if_false]
  unfold getCached; split <;> (try split) <;> simp

/-- The selector Failover consults again is round-robin: with at least two servers two
    consecutive selections are different servers. -/
theorem rr_next_differs (s : St) (hn : 2 ≤ s.n) :
    (selectClient (selectClient s).1).2.1 ≠ (selectClient s).2.1 := by
  have h0 : s.n ≠ 0 := by omega
  have e2 := selectClient_rr s h0
  have h0' : (selectClient s).1.n ≠ 0 := by rw [e2.2]; exact h0
  rw [selectClient_k s h0, selectClient_k _ h0', e2.1, e2.2]
  have hlt : s.rr % s.n < s.n := Nat.mod_lt _ (by omega)
  by_cases hc : s.rr % s.n + 1 < s.n
  · rw [Nat.mod_eq_of_lt hc]; omega
  · have : s.rr % s.n + 1 = s.n := by omega
    rw [this, Nat.mod_self]; omega

theorem resOf_ne_nil (o : Outcome) (d : Nat) : resOf o d ≠ .nilNoReply := by
  unfold resOf; split <;> simp

theorem bWait1_spec (d1 : Nat) (evs : List BEvent) : (bWait1 d1 evs).2 = d1 ∧ (bWait1 d1 evs).1 ≠ .nilNoReply := by
  induction evs with
  | nil => simp [bWait1]
  | cons e r ih => cases e <;> simp [bWait1, ih, resOf_ne_nil]

theorem bPhase2_spec (go1 : Bool) (d : Nat) (evs : List BEvent) :
    (bPhase2 go1 d evs).2 = d ∧ (bPhase2 go1 d evs).1 ≠ .nilNoReply := by
  induction evs with
  | nil => simp [bPhase2]
  | cons e r ih =>
    cases e with
    | reply1 o => simp only [bPhase2]; split <;> simp [ih, resOf_ne_nil]
    | reply2 o => simp [bPhase2, resOf_ne_nil]
    | timer => simp [bPhase2, ih]

theorem bPhase1_spec (go1 go2 : Bool) (d1 : Nat) (evs : List BEvent) :
    (bPhase1 go1 go2 d1 evs).2 ≤ d1 + 1 ∧ (bPhase1 go1 go2 d1 evs).1 ≠ .nilNoReply
    ∧ (BEvent.timer ∉ evs → (bPhase1 go1 go2 d1 evs).2 = d1) := by
  induction evs with
  | nil => simp [bPhase1]
  | cons e r ih =>
    cases e with
    | reply1 o =>
      simp only [bPhase1]
      split
      · simp [resOf_ne_nil]
      · refine ⟨ih.1, ih.2.1, fun h => ih.2.2 (by simpa using h)⟩
    | reply2 o =>
      simp only [bPhase1]
      refine ⟨ih.1, ih.2.1, fun h => ih.2.2 (by simpa using h)⟩
    | timer =>
      simp only [bPhase1]
      split
      · split
        · simp
        · have := bWait1_spec d1 r; simp [this.1, this.2]
      · have := bPhase2_spec go1 (d1 + 1) r; simp [this.1, this.2]

/-- Failbackup: at most two requests are dispatched, the second only after the latency timer,
    and the result is never "nil error without a reply". -/
theorem backup_contract (go1 go2 : Bool) (evs : List BEvent) :
    (backupCall go1 go2 evs).2 ≤ 2 ∧ (backupCall go1 go2 evs).1 ≠ .nilNoReply
    ∧ (BEvent.timer ∉ evs → (backupCall go1 go2 evs).2 ≤ 1) := by
  unfold backupCall
  cases go1 with
  | true =>
    have h := bPhase1_spec true go2 1 evs
    simp only [if_true]
    exact ⟨by have := h.1; omega, h.2.1, fun ht => by rw [h.2.2 ht]; omega⟩
  | false =>
    have h := bPhase1_spec false go2 0 evs
    simp only [Bool.false_eq_true, if_false]
    exact ⟨by have := h.1; omega, h.2.1, fun ht => by rw [h.2.2 ht]; omega⟩

/-- success in Failbackup is the reply of a request that was answered ok -/
theorem backup_truthful (go1 go2 : Bool) (o1 o2 : Outcome) (d : Nat)
    (h : (backupCall go1 go2 [.timer, .reply2 o2, .reply1 o1]).1 = .ok d) (hg : go2 = true) : o2 = .ok ∧ d = 1 := by
  simp only [backupCall, bPhase1, hg, Bool.not_true, Bool.false_eq_true, if_false, bPhase2, resOf] at h
  split at h
  · rename_i he; cases h; exact ⟨errOf_none he, rfl⟩
  · cases h

/-- Regression witnesses for the defects fixed in xClient.SendRaw / Failbackup:
    D14/D15 – the pre-fix SendRaw loop ignored the attempt's error (shadowed variable), so
    after a lost connection with re-dial ok it ended with err = nil, e = nil;
    D16 – Failbackup returned `err1` (nil) when the backup dispatch failed. -/
theorem d15_witness : finish none none = .nilNoReply := rfl

/-- non-vacuity: a failover run with 3 servers, retries 2: lost, lost, ok -/
example : (xcall .failover 2 (St.init 3 [true, true, true] [.lost, .lost, .ok])).2 = .ok 2
    ∧ (xcall .failover 2 (St.init 3 [true, true, true] [.lost, .lost, .ok])).1.deliveries = [2, 1, 0] := by decide

end Rpcx.Props.C10
