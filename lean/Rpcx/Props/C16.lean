import Rpcx.Basic
import Rpcx.Model.Atomic
import Rpcx.Model.Shutdown
/-
  C16: "Graceful shutdown, unless its own deadline expires first, lets every request the server
  has already read run to completion and delivers its response before the connection is closed;
  it starts no handler for requests arriving after shutdown has completed, makes the serve loop
  return the server-closed error, and is safe to call repeatedly or together with Close."

  Theorems about `Sd.step` for EVERY event sequence (any number of requests at any phase, any
  position of Shutdown's steps, repeated Shutdown, Close at any point):
  * `drain_partial`: without Close() and without deadline expiry, a response is lost only if its
    handler STARTED (count++) after Shutdown's successful poll; every request counted before
    that poll had its response written while the connection was open.
    The full statement of the property quantifies over requests already READ; for the code as it
    is that is false – `read_not_counted_lost` is the machine-checked counterexample (the request
    is read before Shutdown begins, is not yet counted when the poll runs, and its response is
    written to a closed connection).  It is recorded as a known finding and replayed on the real
    server by `harness c16` (hook server.process.enter / custom pool).
  * `no_read_after_done`: nothing is read – hence no handler is started for a request arriving –
    after shutdown completed.
  * `serve_returns_closed`: under Shutdown (no Close) the accept loop can only return
    ErrServerClosed, and does once shutdown completed.
  * `done_closed_once`: for any interleaving of any number of Shutdown and Close calls the done
    channel is closed at most once (no panic), and `shutdown_idempotent`: a second Shutdown
    changes nothing.
-/
namespace Rpcx.Props.C16
open Rpcx.Sd

structure Inv (s : State) : Prop where
  cnt : s.count = s.active.length
  nodup : s.active.Nodup
  act : ∀ i, i ∈ s.active ↔ ((s.reqs i).phase = .started ∨ (s.reqs i).phase = .written)
  once : (s.done = true → s.doneCloses = 1) ∧ (s.done = false → s.doneCloses = 0)
  doneConns : s.done = true → s.connsClosed = true
  pcConns : (s.pc = .connsClosed ∨ s.pc = .completed) → s.connsClosed = true
  pcDone : s.pc = .completed → s.done = true
  pcFlag : s.pc ≠ .idle → (s.inShutdown = true ∧ s.lnClosed = true)
  idleFlag : s.pc = .idle → s.inShutdown = false
  lnFlag : s.hardClosed = false → s.lnClosed = true → s.inShutdown = true
  exp : s.pc = .expired → s.expired = true
  soft : s.hardClosed = false → s.connsClosed = true → (s.pc = .connsClosed ∨ s.pc = .completed)
  late : s.hardClosed = false → s.expired = false → latePc s.pc = true → ∀ i ∈ s.active, (s.reqs i).startedAfterPoll = true
  lostPhase : ∀ i, (s.reqs i).lost = true → ((s.reqs i).phase = .written ∨ (s.reqs i).phase = .finished)
  lost : s.hardClosed = false → s.expired = false → ∀ i, (s.reqs i).lost = true → (s.reqs i).startedAfterPoll = true
  wr : ∀ i, ((s.reqs i).phase = .written ∨ (s.reqs i).phase = .finished) → ((s.reqs i).delivered = true ∨ (s.reqs i).lost = true)
  noLate : ∀ i, (s.reqs i).readAfterDone = false
  ret : (s.hardClosed = false → s.serveRet ≠ some false) ∧ (s.serveRet = some true → s.done = true)


theorem inv_init : Inv init := by
  constructor <;> simp [init, latePc]

theorem inv_read (s : State) (i : Nat) (h : Inv s) : Inv (step s (.read i)) := by
  obtain ⟨h1, h2, h3, h4, h5, h6, h7, h8, h9, h10, h11, h12, h13, h14, h15, h16, h17, h18⟩ := h
  simp only [step, closeDone]
  (repeat' split) <;> (try (constructor <;> simp_all [setReq, latePc] <;> grind))

theorem inv_start (s : State) (i : Nat) (h : Inv s) : Inv (step s (.start i)) := by
  obtain ⟨h1, h2, h3, h4, h5, h6, h7, h8, h9, h10, h11, h12, h13, h14, h15, h16, h17, h18⟩ := h
  simp only [step, closeDone]
  (repeat' split) <;> (try (constructor <;> simp_all [setReq, latePc] <;> grind))

theorem inv_write (s : State) (i : Nat) (h : Inv s) : Inv (step s (.write i)) := by
  obtain ⟨h1, h2, h3, h4, h5, h6, h7, h8, h9, h10, h11, h12, h13, h14, h15, h16, h17, h18⟩ := h
  simp only [step, closeDone]
  (repeat' split) <;> (try (constructor <;> simp_all [setReq, latePc] <;> grind))

theorem inv_finish (s : State) (i : Nat) (h : Inv s) : Inv (step s (.finish i)) := by
  obtain ⟨h1, h2, h3, h4, h5, h6, h7, h8, h9, h10, h11, h12, h13, h14, h15, h16, h17, h18⟩ := h
  simp only [step, closeDone]
  (repeat' split) <;> (try (constructor <;> simp_all [setReq, latePc] <;> grind))

theorem inv_sdBegin (s : State)  (h : Inv s) : Inv (step s (.sdBegin)) := by
  obtain ⟨h1, h2, h3, h4, h5, h6, h7, h8, h9, h10, h11, h12, h13, h14, h15, h16, h17, h18⟩ := h
  simp only [step, closeDone]
  (repeat' split) <;> (try (constructor <;> simp_all [setReq, latePc] <;> grind))

theorem inv_sdPoll (s : State)  (h : Inv s) : Inv (step s (.sdPoll)) := by
  obtain ⟨h1, h2, h3, h4, h5, h6, h7, h8, h9, h10, h11, h12, h13, h14, h15, h16, h17, h18⟩ := h
  simp only [step, closeDone]
  (repeat' split) <;> (try (constructor <;> simp_all [setReq, latePc] <;> grind))

theorem inv_sdExpire (s : State)  (h : Inv s) : Inv (step s (.sdExpire)) := by
  obtain ⟨h1, h2, h3, h4, h5, h6, h7, h8, h9, h10, h11, h12, h13, h14, h15, h16, h17, h18⟩ := h
  simp only [step, closeDone]
  (repeat' split) <;> (try (constructor <;> simp_all [setReq, latePc] <;> grind))

theorem inv_sdCloseConns (s : State)  (h : Inv s) : Inv (step s (.sdCloseConns)) := by
  obtain ⟨h1, h2, h3, h4, h5, h6, h7, h8, h9, h10, h11, h12, h13, h14, h15, h16, h17, h18⟩ := h
  simp only [step, closeDone]
  (repeat' split) <;> (try (constructor <;> simp_all [setReq, latePc] <;> grind))

theorem inv_sdCloseDone (s : State)  (h : Inv s) : Inv (step s (.sdCloseDone)) := by
  obtain ⟨h1, h2, h3, h4, h5, h6, h7, h8, h9, h10, h11, h12, h13, h14, h15, h16, h17, h18⟩ := h
  simp only [step, closeDone]
  (repeat' split) <;> (try (constructor <;> simp_all [setReq, latePc] <;> grind))

theorem inv_close (s : State)  (h : Inv s) : Inv (step s (.close)) := by
  obtain ⟨h1, h2, h3, h4, h5, h6, h7, h8, h9, h10, h11, h12, h13, h14, h15, h16, h17, h18⟩ := h
  simp only [step, closeDone]
  (repeat' split) <;> (try (constructor <;> simp_all [setReq, latePc] <;> grind))

theorem inv_acceptFail (s : State)  (h : Inv s) : Inv (step s (.acceptFail)) := by
  obtain ⟨h1, h2, h3, h4, h5, h6, h7, h8, h9, h10, h11, h12, h13, h14, h15, h16, h17, h18⟩ := h
  simp only [step, closeDone]
  (repeat' split) <;> (try (constructor <;> simp_all [setReq, latePc] <;> grind))

/-- the invariant is preserved by every step -/
theorem inv_step (s : State) (e : Ev) (h : Inv s) : Inv (step s e) := by
  cases e with
  | read i => exact inv_read s i h
  | start i => exact inv_start s i h
  | write i => exact inv_write s i h
  | finish i => exact inv_finish s i h
  | sdBegin => exact inv_sdBegin s h
  | sdPoll => exact inv_sdPoll s h
  | sdExpire => exact inv_sdExpire s h
  | sdCloseConns => exact inv_sdCloseConns s h
  | sdCloseDone => exact inv_sdCloseDone s h
  | close => exact inv_close s h
  | acceptFail => exact inv_acceptFail s h

theorem inv_run (s : State) (evs : List Ev) (h : Inv s) : Inv (run s evs) := by
  induction evs generalizing s with
  | nil => exact h
  | cons e rest ih => exact ih (step s e) (inv_step s e h)

/-- every state reachable from the initial one, by any event sequence -/
theorem inv_reachable (evs : List Ev) : Inv (run init evs) := inv_run init evs inv_init

/-- **Drain (partial).**  In every execution without Close() in which Shutdown's deadline did not
    expire, a response is lost only if its handler started after Shutdown's successful poll. -/
theorem drain_partial (evs : List Ev) (hc : (run init evs).hardClosed = false) (he : (run init evs).expired = false) :
    ∀ i, ((run init evs).reqs i).lost = true → ((run init evs).reqs i).startedAfterPoll = true :=
  (inv_reachable evs).lost hc he

/-- … equivalently: every request counted before the successful poll whose response was written
    had it written while the connection was open (delivered). -/
theorem counted_before_poll_delivered (evs : List Ev) (hc : (run init evs).hardClosed = false)
    (he : (run init evs).expired = false) (i : Nat)
    (hw : ((run init evs).reqs i).phase = .written ∨ ((run init evs).reqs i).phase = .finished)
    (hb : ((run init evs).reqs i).startedAfterPoll = false) :
    ((run init evs).reqs i).delivered = true := by
  rcases (inv_reachable evs).wr i hw with h | h
  · exact h
  · have := drain_partial evs hc he i h
    rw [hb] at this; cases this

/-- Shutdown's poll succeeds only when no counted request is unfinished: whatever it then closes,
    every request counted so far has already written its response and been un-counted. -/
theorem poll_means_idle (evs : List Ev) (h0 : (run init evs).count = 0) :
    ∀ i, ((run init evs).reqs i).phase ≠ .started ∧ ((run init evs).reqs i).phase ≠ .written := by
  intro i
  have hI := inv_reachable evs
  have hnil : (run init evs).active = [] := List.eq_nil_of_length_eq_zero (by rw [← hI.cnt]; exact h0)
  have := (hI.act i)
  rw [hnil] at this
  constructor <;> intro hp <;> simp [hp] at this

/-- **The full statement fails for the code as it is** (known finding): the request is read before
    Shutdown begins, its handler goroutine has not yet incremented the in-progress count when
    Shutdown polls, the connection is closed, and the response is written to a closed connection
    – with no Close() and no deadline expiry. -/
def gapTrace : List Ev := [.read 0, .sdBegin, .sdPoll, .sdCloseConns, .sdCloseDone, .start 0, .write 0, .finish 0]

theorem read_not_counted_lost :
    ((run init (gapTrace.take 1)).reqs 0).phase = .read ∧ (run init (gapTrace.take 1)).inShutdown = false
    ∧ ((run init gapTrace).reqs 0).lost = true ∧ ((run init gapTrace).reqs 0).delivered = false
    ∧ (run init gapTrace).expired = false ∧ (run init gapTrace).hardClosed = false
    ∧ (run init gapTrace).pc = .completed := by
  decide

/-- nothing is read after shutdown (or Close) completed: no handler can start for a request
    arriving afterwards -/
theorem no_read_after_done (evs : List Ev) (i : Nat) : ((run init evs).reqs i).readAfterDone = false :=
  (inv_reachable evs).noLate i

/-- once the done channel is closed every connection is closed: reading is disabled for good -/
theorem read_disabled_after_done (evs : List Ev) (hd : (run init evs).done = true) (i : Nat) :
    step (run init evs) (.read i) = run init evs := by
  have := (inv_reachable evs).doneConns hd
  simp [step, this]

/-- under Shutdown (no Close) the accept loop never returns anything but ErrServerClosed … -/
theorem serve_returns_closed (evs : List Ev) (hc : (run init evs).hardClosed = false) :
    (run init evs).serveRet = none ∨ (run init evs).serveRet = some true := by
  have := (inv_reachable evs).ret.1 hc
  cases h : (run init evs).serveRet with
  | none => exact Or.inl rfl
  | some b => cases b with
    | true => exact Or.inr rfl
    | false => rw [h] at this; exact absurd rfl this

/-- … and it does return it once Shutdown has completed -/
theorem serve_returns_when_completed (evs : List Ev) (hp : (run init evs).pc = .completed)
    (hr : (run init evs).serveRet = none) :
    (step (run init evs) .acceptFail).serveRet = some true := by
  have hI := inv_reachable evs
  have hd := hI.pcDone hp
  have hf := hI.pcFlag (by rw [hp]; decide)
  simp [step, hf.1, hf.2, hd, hr]

/-- **Close-once**: for any interleaving of any number of Shutdown and Close calls the done
    channel is closed at most once – `close` of a closed channel (a panic) cannot happen. -/
theorem done_closed_once (evs : List Ev) : (run init evs).doneCloses ≤ 1 := by
  have := (inv_reachable evs).once
  cases h : (run init evs).done with
  | true => rw [this.1 h]; exact Nat.le_refl 1
  | false => rw [this.2 h]; exact Nat.zero_le 1

/-- a second Shutdown changes nothing (its CAS fails and it returns at once) -/
theorem shutdown_idempotent (s : State) : step (step s .sdBegin) .sdBegin = step s .sdBegin := by
  simp only [step]
  split <;> simp_all

/-- non-vacuity: an execution in which a held request is drained – Shutdown polls in vain, the
    handler finishes, the next poll succeeds – delivers the response and completes -/
example : let s := run init [.read 0, .start 0, .sdBegin, .sdPoll, .write 0, .finish 0, .sdPoll, .sdCloseConns, .sdCloseDone, .acceptFail]
    (s.reqs 0).delivered = true ∧ (s.reqs 0).lost = false ∧ s.pc = .completed ∧ s.serveRet = some true ∧ s.doneCloses = 1 := by
  decide

/-! ### the model's steps are the code's critical sections / statement order (regenerated facts) -/

theorem tie_atomic : Rpcx.tieItem Gen.atomicTie "atomic:server.Server.Shutdown" = true ∧ Rpcx.tieItem Gen.atomicTie "atomic:server.Server.Close" = true
    ∧ Rpcx.tieItem Gen.atomicTie "atomic:server.Server.processOneRequest" = true := by decide

/-- `closeConns` + `closeDone` of Shutdown are one critical section, and so is all of `Close` -/
theorem tie_shutdown_final_atomic :
    Atomic.sameRegion .serverShutdown .serverMu [.rangeActive, .deleteActive, .closeDone] = true
    ∧ Atomic.sameRegion .serverClose .serverMu [.lnClose, .rangeActive, .deleteActive, .closeDone] = true := by
  decide

/-- the in-progress count brackets the response write: `processOneRequest` increments it before
    it calls `sendResponse`, and decrements it only on the way out (deferred) – `start … write …
    finish` of the model, in this order, in one function -/
theorem tie_count_brackets_write :
    Atomic.occursBefore .serverProcessOne .countInc .sendResponse = true
    ∧ Atomic.occursBefore .serverProcessOne .countInc .handleRequest = true
    ∧ Atomic.occurs .serverProcessOne .countDecDeferred = true := by decide

/-- no mutex of the server is acquired while itself held, and no two are acquired in both orders
    (directly or through calls between the server's own methods): Shutdown and Close cannot
    deadlock against each other on lock order -/
theorem tie_lock_order_acyclic : Atomic.lockOrderAcyclic = true := by decide

end Rpcx.Props.C16
