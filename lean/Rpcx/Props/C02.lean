import Rpcx.Lemmas.Wire
/-
  C02: decoder totality, frame confinement, stream resynchronisation – theorems about the
  decoder model `Rpcx.decode` (hand-written from `Message.Decode`, tied to it by
  `harness c02`, in which every case is a specification case).

  * totality: `decode` is a total function into `ok | error` – there is no crash outcome
    (the Go code's deferred recover now turns a crash into an error, and the harness checks
    that no panic escapes and no success is reported for what the model rejects).
  * `ok_is_frame`: success ⇒ the input is `frame ++ rest` where the frame's own length fields
    delimit it, and the returned fields are exactly the delimited bytes.
  * `ok_consumed`: success ⇒ exactly 16 + total bytes were consumed.
  * `too_long`: a frame longer than the maximum is rejected having consumed 16 bytes,
    whatever follows (the body is never looked at).
  * `ok_extend` / `decodeAll_concat`: decoding depends only on the frame, so concatenated
    frames decode to the same sequence; `readFull_flatten`: the chunking of the input is
    invisible to `io.ReadFull`, hence to the decoder.
  * `truncated_rejected`: every truncation of a frame-shaped byte string (12-byte header,
    4-byte length, the announced number of body bytes) – at EVERY cut point before the announced
    end – is rejected; in particular no proper prefix of a valid frame is ever reported as
    decoded.
-/
namespace Rpcx.Props.C02
open Rpcx Rpcx.Gen

/-- Success exhibits the frame and pins every field to the bytes its length field delimits. -/
theorem ok_is_frame {cfg : Cfg} {bs rest : Bytes} {m : Msg} (hd : decode cfg bs = .ok (m, rest)) :
    ∃ (h : Header) (t0 t1 t2 t3 : Byte) (path method metaB pay slack : Bytes)
      (a0 a1 a2 a3 b0 b1 b2 b3 c0 c1 c2 c3 d0 d1 d2 d3 : Byte),
      bs = h.toBytes ++ (t0 :: t1 :: t2 :: t3 ::
            ((a0 :: a1 :: a2 :: a3 :: (path ++ (b0 :: b1 :: b2 :: b3 :: (method
              ++ (c0 :: c1 :: c2 :: c3 :: (metaB ++ (d0 :: d1 :: d2 :: d3 :: (pay ++ slack))))))))
             ++ rest))
      ∧ h.b0 = C.magicNumber
      ∧ (a0 :: a1 :: a2 :: a3 :: (path ++ (b0 :: b1 :: b2 :: b3 :: (method
              ++ (c0 :: c1 :: c2 :: c3 :: (metaB ++ (d0 :: d1 :: d2 :: d3 :: (pay ++ slack)))))))).length
          = rd32 t0 t1 t2 t3
      ∧ path.length = rd32 a0 a1 a2 a3 ∧ method.length = rd32 b0 b1 b2 b3
      ∧ metaB.length = rd32 c0 c1 c2 c3 ∧ pay.length = rd32 d0 d1 d2 d3
      ∧ m.hdr = h ∧ m.path = path ∧ m.method = method ∧ decodeMeta metaB = some m.md
      ∧ unzipStep cfg.reg h pay = .ok m.payload := by
  obtain ⟨h, t0, t1, t2, t3, body, rfl, hm, lb, _, hb⟩ := decode_ok hd
  obtain ⟨path, method, metaB, pay, slack, a0, a1, a2, a3, b0, b1, b2, b3, c0, c1, c2, c3, d0, d1, d2, d3,
    rfl, l1, l2, l3, l4, r⟩ := decodeBody_ok hb
  exact ⟨h, t0, t1, t2, t3, path, method, metaB, pay, slack, a0, a1, a2, a3, b0, b1, b2, b3, c0, c1, c2, c3,
    d0, d1, d2, d3, rfl, hm, lb, l1, l2, l3, l4, r⟩

/-- After a successful decode the reader stands on the first byte after the frame. -/
theorem ok_consumed {cfg : Cfg} {bs rest : Bytes} {m : Msg} (hd : decode cfg bs = .ok (m, rest)) :
    ∃ t0 t1 t2 t3 pre, bs = pre ++ rest ∧ pre.length = 16 + rd32 t0 t1 t2 t3
      ∧ (pre.drop 12).take 4 = [t0, t1, t2, t3] := by
  obtain ⟨h, t0, t1, t2, t3, body, rfl, _, lb, _, _⟩ := decode_ok hd
  refine ⟨t0, t1, t2, t3, h.toBytes ++ (t0 :: t1 :: t2 :: t3 :: body), ?_, ?_, ?_⟩
  · simp
  · simp [lb]; omega
  · rfl

/-- Max length: rejection happens on the 16-byte prefix alone. -/
theorem too_long (cfg : Cfg) (h : Header) (total : Nat) (whatever : Bytes)
    (hmagic : h.b0 = C.magicNumber) (hlen : total < 4294967296)
    (hmax : 0 < cfg.maxLen ∧ cfg.maxLen < total) :
    decode cfg (h.toBytes ++ (be32 total ++ whatever)) = .error (.tooLong, 16) :=
  decode_tooLong cfg h total whatever hmagic hlen hmax

/-- Decoding looks at the frame only: appending bytes to the input appends them to the rest. -/
theorem ok_extend {cfg : Cfg} {bs rest : Bytes} {m : Msg} (hd : decode cfg bs = .ok (m, rest)) (x : Bytes) :
    decode cfg (bs ++ x) = .ok (m, rest ++ x) := by
  obtain ⟨h, t0, t1, t2, t3, body, rfl, hm, lb, hmax, hb⟩ := decode_ok hd
  have hlt : body.length < 4294967296 := by rw [lb]; exact rd32_lt _ _ _ _
  have e : h.toBytes ++ (t0 :: t1 :: t2 :: t3 :: (body ++ rest)) ++ x
      = h.toBytes ++ (be32 body.length ++ (body ++ (rest ++ x))) := by
    rw [lb, be32_rd32]; simp
  rw [e, decode_frame cfg h body (rest ++ x) hm hlt hmax, hb]
  rfl

/-- Concatenated decodable frames decode to the same sequence of messages. -/
theorem decodeAll_concat (cfg : Cfg) :
    ∀ (frames : List (Bytes × Msg)), (∀ f ∈ frames, decode cfg f.1 = .ok (f.2, [])) →
    ∀ fuel, frames.length < fuel →
      decodeAll cfg fuel (frames.map (·.1)).flatten = (frames.map (·.2), none) := by
  intro frames
  induction frames with
  | nil => intro _ fuel hf; cases fuel with
    | zero => omega
    | succ n => simp [decodeAll]
  | cons f fs ih =>
    intro hall fuel hf
    cases fuel with
    | zero => omega
    | succ n =>
      have h1 := hall f (by simp)
      have h2 := ok_extend h1 (fs.map (·.1)).flatten
      have hne : (f.1 ++ (fs.map (·.1)).flatten).isEmpty = false := by
        obtain ⟨h, t0, t1, t2, t3, body, e, _⟩ := decode_ok h1
        rw [e]; rfl
      have ih' := ih (fun g hg => hall g (by simp [hg])) n (by simpa using hf)
      simp only [List.map_cons, List.flatten_cons, decodeAll, hne, Bool.false_eq_true, if_false, h2,
        List.nil_append, ih']

/-- `io.ReadFull` over a chunked reader returns the first `n` bytes of the concatenation and
    leaves a reader whose concatenation is the rest: chunk boundaries are invisible. -/
theorem readFull_flatten : ∀ (n : Nat) (cs : List Bytes) (a : Bytes) (cs' : List Bytes),
    readFull n cs = some (a, cs') → a = cs.flatten.take n ∧ cs'.flatten = cs.flatten.drop n ∧ a.length = n := by
  intro n cs
  induction cs generalizing n with
  | nil =>
    intro a cs' h
    cases n with
    | zero => simp [readFull] at h; obtain ⟨rfl, rfl⟩ := h; simp
    | succ k => simp [readFull] at h
  | cons c cs ih =>
    intro a cs' h
    cases n with
    | zero => simp [readFull] at h; obtain ⟨rfl, rfl⟩ := h; simp
    | succ k =>
      simp only [readFull] at h
      split at h
      · rename_i hle
        simp only [Option.some.injEq, Prod.mk.injEq] at h
        obtain ⟨rfl, rfl⟩ := h
        refine ⟨?_, ?_, ?_⟩
        · simp [List.take_append_of_le_length hle]
        · simp [List.drop_append_of_le_length hle]
        · simp; omega
      · rename_i hgt
        split at h
        · cases h
        · rename_i a' cs'' hr
          simp only [Option.some.injEq, Prod.mk.injEq] at h
          obtain ⟨rfl, rfl⟩ := h
          obtain ⟨e1, e2, e3⟩ := ih _ _ _ hr
          refine ⟨?_, ?_, ?_⟩
          · rw [List.flatten_cons, List.take_append]
            rw [List.take_of_length_le (by omega), ← e1]
          · rw [List.flatten_cons, List.drop_append]
            rw [List.drop_of_length_le (by omega), e2]; simp
          · simp [e3]; omega

theorem readFull_none : ∀ (n : Nat) (cs : List Bytes), readFull n cs = none ↔ cs.flatten.length < n := by
  intro n cs
  induction cs generalizing n with
  | nil => cases n <;> simp [readFull]
  | cons c cs ih =>
    cases n with
    | zero => simp [readFull]
    | succ k =>
      simp only [readFull]
      split
      · rename_i hle; simp only [List.flatten_cons, List.length_append]; simp; omega
      · rename_i hgt
        have hi := ih (k + 1 - c.length)
        simp only [List.flatten_cons, List.length_append]
        split
        · rename_i hr; have := hi.mp hr; exact ⟨fun _ => by omega, fun _ => rfl⟩
        · rename_i a cs' hr
          have hn : ¬ (readFull (k + 1 - c.length) cs = none) := by rw [hr]; simp
          have := mt hi.mpr hn
          exact ⟨fun h => (by cases h), fun h => (by omega)⟩

/-- **Truncation is never success.**  Cut a frame-shaped byte string (header, length field
    announcing `body.length` bytes, body) anywhere before its announced end: the decoder does not
    report success, whatever the configuration. -/
theorem truncated_rejected (cfg : Cfg) (h : Header) (body : Bytes) (hlen : body.length < 4294967296)
    (k : Nat) (hk : k < 16 + body.length) (m : Msg) (rest : Bytes) :
    decode cfg ((h.toBytes ++ (be32 body.length ++ body)).take k) ≠ .ok (m, rest) := by
  intro hd
  obtain ⟨h', t0, t1, t2, t3, body', hP, _, lb, _, _⟩ := decode_ok hd
  have hFlen : (h.toBytes ++ (be32 body.length ++ body)).length = 16 + body.length := by
    simp [List.length_append]; omega
  -- the truncated input is at least 16 bytes long (it decoded), so the cut is past the prefix
  have hPlen := congrArg List.length hP
  rw [List.length_take, hFlen] at hPlen
  simp only [List.length_append, Header.toBytes_length, List.length_cons] at hPlen
  have hk16 : 16 ≤ k := by omega
  -- hence its first 16 bytes are the frame's first 16 bytes
  have h16 := congrArg (List.take 16) hP
  rw [List.take_take, Nat.min_eq_left hk16] at h16
  have e1 : (h.toBytes ++ (be32 body.length ++ body)).take 16 = h.toBytes ++ be32 body.length := by
    rw [← List.append_assoc, List.take_left' (by simp)]
  have e2 : (h'.toBytes ++ (t0 :: t1 :: t2 :: t3 :: (body' ++ rest))).take 16 = h'.toBytes ++ [t0, t1, t2, t3] := by
    have : h'.toBytes ++ (t0 :: t1 :: t2 :: t3 :: (body' ++ rest)) = (h'.toBytes ++ [t0, t1, t2, t3]) ++ (body' ++ rest) := by simp
    rw [this, List.take_left' (by simp)]
  rw [e1, e2] at h16
  have hlenEq := (List.append_inj h16 (by simp)).2
  -- so the announced length is the same
  have hrd : rd32 t0 t1 t2 t3 = body.length := by
    have a := rd32p_be32 body.length [] hlen
    rw [List.append_nil, hlenEq] at a
    simpa [rd32p] using a
  omega

/-- non-vacuity: a concrete frame that decodes (so the hypotheses above are satisfiable) -/
example : (match decode ⟨0, fun _ => none⟩
    ([0x08#8, 0, 0, 0, 0, 0, 0, 0, 0, 0, 0, 9] ++ be32 18 ++ be32 1 ++ [0x41#8] ++ be32 1 ++ [0x42#8] ++ be32 0 ++ be32 0) with
    | .ok (m, []) => m.path == [0x41#8] && m.method == [0x42#8]
    | _ => false) = true := by decide +kernel

end Rpcx.Props.C02
