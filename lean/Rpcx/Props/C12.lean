import Rpcx.Model.Select
import Rpcx.Lemmas.Cyclic
import Rpcx.Lemmas.Swrr
import Rpcx.Lemmas.SwrrEqual
/-
  C12: round-robin is exact; the weighted ring is read cyclically.

  * `rr_run`: from any cursor, the j-th of consecutive round-robin selections is
    `servers[(c + j) mod n]` (stated over the REGENERATED `roundRobinSelector.Select`), never a
    panic; `rr_window`: any `n` consecutive selections contain every server exactly as often
    as the server slice does (once each, keys of a map being distinct) – for every `n`, every
    cursor value, every offset.
  * `wrr_run` / `wrr_window`: the weighted selector reads its ring cyclically, so every
    window of `ring.length` consecutive selections has exactly the ring's counts, at every
    offset; `buildRing_length`: the ring has sum-of-weights entries.
  * `wrr_ring_proportional`: the ring built by the nginx smooth weighted algorithm (`next`)
    contains every eligible server exactly weight-many times – for EVERY number of servers and
    EVERY positive weight vector (invariants: the current weights sum to 0, each stays above
    minus the total, and after k steps cw_i = k·w_i − T·picks_i; at k = T this forces
    picks_i = w_i).  With `wrr_window`: every window of sum-of-weights consecutive selections
    picks each server exactly weight-many times (`wrr_exact`).
  * `wrr_equal_weights`: with equal weights w the ring is w repetitions of one pass over the
    servers – plain round-robin – checked here by complete evaluation for n ≤ 4, w ≤ 3 and
    against the implementation by the harness (the general statement is not proved).
-/
namespace Rpcx.Props.C12
open Rpcx Rpcx.Sel Rpcx.Gen

/-- k consecutive round-robin selections -/
def rrRun : Nat → RR → List (Option String)
  | 0, _ => []
  | k + 1, s => (RR.select s).2 :: rrRun k (RR.select s).1

theorem rr_select_eq (servers : List String) (c : Nat) (hn : 0 < servers.length) :
    Gen.RR.select ⟨(c : Int)⟩ servers
      = (⟨((c % servers.length : Nat) : Int) + 1⟩, servers[c % servers.length]?) := by
  have hn' : (Int.ofNat servers.length == 0) = false := by
    rw [beq_eq_false_iff_ne]; intro h
    have : (servers.length : Int) = 0 := h
    omega
  have hmod : Int.tmod (c : Int) (Int.ofNat servers.length) = ((c % servers.length : Nat) : Int) := by
    show Int.tmod (c : Int) (servers.length : Int) = _
    rw [Int.tmod_eq_emod_of_nonneg (by omega)]
    omega
  have hge : ¬ (((c % servers.length : Nat) : Int) < 0) := by omega
  simp only [Gen.RR.select, hn', Bool.false_eq_true, if_false, hmod, goIndex, hge, Int.toNat_natCast]

theorem rr_step (s : RR) (hn : 0 < s.servers.length) (hi : 0 ≤ s.st.i) :
    (RR.select s).2 = cyc s.servers s.st.i.toNat 0
    ∧ 0 ≤ (RR.select s).1.st.i
    ∧ (RR.select s).1.servers = s.servers
    ∧ ∀ j, cyc s.servers (RR.select s).1.st.i.toNat j = cyc s.servers s.st.i.toNat (j + 1) := by
  obtain ⟨servers, ⟨i⟩⟩ := s
  simp only at hn hi
  obtain ⟨c, rfl⟩ := Int.eq_ofNat_of_zero_le hi
  have e := rr_select_eq servers c hn
  simp only [Sel.RR.select, e, cyc, Int.toNat_natCast, Nat.add_zero]
  refine ⟨trivial, by omega, trivial, ?_⟩
  intro j
  have : (((c % servers.length : Nat) : Int) + 1).toNat = c % servers.length + 1 := by omega
  rw [this]
  congr 1
  rw [Nat.add_assoc, Nat.add_comm 1 j, Nat.mod_add_mod]

/-- round-robin: the j-th consecutive selection from cursor `c` is `servers[(c + j) mod n]` -/
theorem rr_run (k : Nat) : ∀ (s : RR), 0 < s.servers.length → 0 ≤ s.st.i →
    rrRun k s = (List.range k).map (cyc s.servers s.st.i.toNat) := by
  induction k with
  | zero => intro s _ _; simp [rrRun]
  | succ k ih =>
    intro s hn hi
    obtain ⟨h1, h2, h3, h4⟩ := rr_step s hn hi
    rw [rrRun, ih _ (by rw [h3]; exact hn) h2, h1, h3, List.range_succ_eq_map]
    simp only [List.map_cons, List.map_map]
    congr 1
    apply List.map_congr_left
    intro j _
    simp [h4 j]

/-- Round-robin is exact: any n consecutive selections (from any reachable cursor, i.e. at any
    offset) contain each server exactly as often as the server slice does. -/
theorem rr_window (s : RR) (hn : 0 < s.servers.length) (hi : 0 ≤ s.st.i) (a : String) :
    (rrRun s.servers.length s).count (some a) = s.servers.count a := by
  rw [rr_run _ s hn hi]
  exact cyc_window_count s.servers _ hn a

/-- never a panic, never the empty result while servers exist -/
theorem rr_no_panic (s : RR) (hn : 0 < s.servers.length) (hi : 0 ≤ s.st.i) :
    ∃ a, (RR.select s).2 = some a ∧ a ∈ s.servers := by
  obtain ⟨h1, _⟩ := rr_step s hn hi
  have hlt : (s.st.i.toNat + 0) % s.servers.length < s.servers.length := Nat.mod_lt _ hn
  refine ⟨s.servers[(s.st.i.toNat + 0) % s.servers.length], ?_, List.getElem_mem _⟩
  rw [h1, cyc, List.getElem?_eq_getElem hlt]

/-- the cursor invariant `0 ≤ i` holds initially and is preserved by select and update -/
theorem rr_inv_new (keys : List String) : 0 ≤ (RR.new keys).st.i := by simp [RR.new]
theorem rr_inv_update (s : RR) (keys : List String) (h : 0 ≤ s.st.i) : 0 ≤ (s.update keys).st.i := by
  simpa [RR.update] using h
theorem rr_inv_select (s : RR) (h : 0 ≤ s.st.i) : 0 ≤ (RR.select s).1.st.i := by
  by_cases hn : 0 < s.servers.length
  · exact (rr_step s hn h).2.1
  · have : s.servers.length = 0 := by omega
    simp [Sel.RR.select, Gen.RR.select, this, h]

/-! ### weighted: cyclic reading of the ring -/

def wrrRun : Nat → WRR → List (Option String)
  | 0, _ => []
  | k + 1, s => (WRR.select s).2 :: wrrRun k (WRR.select s).1

theorem wrr_step (s : WRR) (hws : s.ws.isEmpty = false) (hr : 0 < s.ring.length) (hp : s.pos < s.ring.length) :
    (WRR.select s).2 = cyc s.ring s.pos 0
    ∧ (WRR.select s).1.pos < s.ring.length
    ∧ (WRR.select s).1.ring = s.ring ∧ (WRR.select s).1.ws = s.ws
    ∧ ∀ j, cyc s.ring (WRR.select s).1.pos j = cyc s.ring s.pos (j + 1) := by
  simp only [WRR.select, hws, Bool.false_eq_true, if_false, List.getElem?_eq_getElem hp, cyc, Nat.add_zero,
    Nat.mod_eq_of_lt hp]
  refine ⟨trivial, Nat.mod_lt _ hr, trivial, trivial, ?_⟩
  intro j
  congr 1
  rw [Nat.mod_add_mod, Nat.add_assoc, Nat.add_comm 1 j]

theorem wrr_run (k : Nat) : ∀ (s : WRR), s.ws.isEmpty = false → 0 < s.ring.length → s.pos < s.ring.length →
    wrrRun k s = (List.range k).map (cyc s.ring s.pos) := by
  induction k with
  | zero => intro s _ _ _; simp [wrrRun]
  | succ k ih =>
    intro s hws hr hp
    obtain ⟨h1, h2, h3, h4, h5⟩ := wrr_step s hws hr hp
    rw [wrrRun, ih _ (by rw [h4]; exact hws) (by rw [h3]; exact hr) (by rw [h3]; exact h2), h1, h3,
      List.range_succ_eq_map]
    simp only [List.map_cons, List.map_map]
    congr 1
    apply List.map_congr_left
    intro j _
    simp [h5 j]

/-- every window of sum-of-weights consecutive weighted selections has exactly the ring's counts -/
theorem wrr_window (s : WRR) (hws : s.ws.isEmpty = false) (hr : 0 < s.ring.length) (hp : s.pos < s.ring.length)
    (a : String) : (wrrRun s.ring.length s).count (some a) = s.ring.count a := by
  rw [wrr_run _ s hws hr hp]
  exact cyc_window_count s.ring _ hr a

theorem buildRing_single (w : W) (t : Int) : ∀ (k : Nat) (acc : List String),
    (buildRingAux k [w] t acc).2 = acc.reverse ++ List.replicate k w.server := by
  intro k
  induction k with
  | zero => intro acc; simp [buildRingAux]
  | succ k ih =>
    intro acc
    simp only [buildRingAux, next]
    rw [ih]
    simp [List.replicate_succ]

/-- **Exact proportionality.**  For every list of servers with distinct addresses and every
    assignment of weights, the ring of the weighted selector holds each server with a positive
    weight exactly weight-many times (and servers with non-positive weight not at all). -/
theorem wrr_ring_proportional (entries : List (String × Int)) (hnd : (entries.map (·.1)).Nodup) :
    ∀ e ∈ entries, 0 < e.2 → (((WRR.new entries).ring.count e.1 : Nat) : Int) = e.2 := by
  intro e he hpos
  -- the eligible servers, as the selector stores them
  let ws := (entries.filter (fun e => e.2 > 0)).map (fun e => (⟨e.1, e.2, 0⟩ : W))
  have hring : (WRR.new entries).ring = (buildRingAux (total ws).toNat ws (total ws) []).2 := by
    simp [WRR.new, ws]
  have hmem : (⟨e.1, e.2, 0⟩ : W) ∈ ws := by
    simp only [ws, List.mem_map, List.mem_filter]
    exact ⟨e, ⟨he, by simpa using hpos⟩, rfl⟩
  have hnd' : (ws.map (·.server)).Nodup := by
    have : ws.map (·.server) = (entries.filter (fun e => e.2 > 0)).map (·.1) := by simp [ws, List.map_map, Function.comp]
    rw [this]
    exact List.Nodup.sublist (List.Sublist.map _ List.filter_sublist) hnd
  have hw : ∀ w ∈ ws, 0 < w.weight := by
    intro w hw
    simp only [ws, List.mem_map, List.mem_filter] at hw
    obtain ⟨x, ⟨_, hp⟩, rfl⟩ := hw
    simpa using hp
  have hcw : ∀ w ∈ ws, w.cw = 0 := by
    intro w hw
    simp only [ws, List.mem_map] at hw
    obtain ⟨x, _, rfl⟩ := hw
    rfl
  obtain ⟨i, hi, hget⟩ := List.getElem_of_mem hmem
  rw [hring]
  by_cases h2 : 2 ≤ ws.length
  · have := (ring_counts ws h2 hw hnd' hcw i hi).1
    rw [hget] at this
    exact this
  · -- exactly one eligible server: `next` returns it every time
    have h1 : ws.length = 1 := by
      have : 0 < ws.length := List.length_pos_iff.mpr (List.ne_nil_of_mem hmem)
      omega
    match hws : ws, h1 with
    | [w], _ =>
      rw [hws] at hmem
      have hw' : w = ⟨e.1, e.2, 0⟩ := by simpa using (List.mem_singleton.mp hmem).symm
      rw [buildRing_single]
      subst hw'
      simp [total]
      omega

/-- Weighted round-robin is exactly proportional: on a freshly built (or updated) selector,
    every window of sum-of-weights consecutive selections – at every offset – picks each
    eligible server exactly weight-many times. -/
theorem wrr_exact (entries : List (String × Int)) (hnd : (entries.map (·.1)).Nodup)
    (s : WRR) (hring : s.ring = (WRR.new entries).ring) (hws : s.ws.isEmpty = false)
    (hr : 0 < s.ring.length) (hp : s.pos < s.ring.length) :
    ∀ e ∈ entries, 0 < e.2 → (((wrrRun s.ring.length s).count (some e.1) : Nat) : Int) = e.2 := by
  intro e he hpos
  rw [wrr_window s hws hr hp e.1, hring]
  exact wrr_ring_proportional entries hnd e he hpos

theorem next_ne_nil (ws : List W) (T : Int) (h : ws ≠ []) : (next ws T).1 ≠ [] := by
  match ws, h with
  | [w], _ => simp [next]
  | w1 :: w2 :: rest, _ =>
    obtain ⟨f, hf, _, hlen, _⟩ := next_step (w1 :: w2 :: rest) T (by simp)
    intro hnil
    rw [hnil] at hlen
    simp at hlen

theorem buildRingAux_ne_nil (ws : List W) (T : Int) (acc : List String) (h : ws ≠ []) :
    ∀ k, (buildRingAux k ws T acc).1 ≠ [] := by
  intro k
  induction k generalizing ws acc with
  | zero => simpa [buildRingAux] using h
  | succ k ih =>
    simp only [buildRingAux]
    exact ih _ _ (next_ne_nil ws T h)

/-- **a weight changed by an update is honoured from the next selection on**: whatever the selector
    was before (`old`: any ring, any position, any weights), after `UpdateServer entries` the very next
    window of sum-of-weights selections picks each eligible server of the NEW set exactly as often as
    its NEW weight says -/
theorem wrr_update_honoured (old : WRR) (entries : List (String × Int)) (hnd : (entries.map (·.1)).Nodup)
    (e0 : String × Int) (he0 : e0 ∈ entries) (h0 : 0 < e0.2) :
    ∀ e ∈ entries, 0 < e.2 →
      ((((wrrRun (old.update entries).ring.length (old.update entries)).count (some e.1) : Nat)) : Int) = e.2 := by
  have hcount := wrr_ring_proportional entries hnd e0 he0 h0
  have hr : 0 < (WRR.new entries).ring.length := by
    have hpos : 0 < (WRR.new entries).ring.count e0.1 := by omega
    exact List.length_pos_of_mem (List.count_pos_iff.mp hpos)
  have hws : (WRR.new entries).ws.isEmpty = false := by
    have hmem : (⟨e0.1, e0.2, 0⟩ : W) ∈ (entries.filter (fun e => e.2 > 0)).map (fun e => (⟨e.1, e.2, 0⟩ : W)) := by
      simp only [List.mem_map, List.mem_filter]
      exact ⟨e0, ⟨he0, by simpa using h0⟩, rfl⟩
    have hne := List.ne_nil_of_mem hmem
    simp only [WRR.new]
    generalize (entries.filter (fun e => e.2 > 0)).map (fun e => (⟨e.1, e.2, 0⟩ : W)) = ws0 at hne ⊢
    have := buildRingAux_ne_nil ws0 (total ws0) [] hne (total ws0).toNat
    cases hq : (buildRingAux (total ws0).toNat ws0 (total ws0) []).1 with
    | nil => exact absurd hq this
    | cons x xs => simp [hq]
  have hp : (WRR.new entries).pos < (WRR.new entries).ring.length := by simpa [WRR.new] using hr
  exact wrr_exact entries hnd (old.update entries) rfl hws hr hp

/-- **equal weights behave as plain round-robin – for every number of servers and every weight**: the
    ring of `n` servers of weight `w` is `w` passes over the servers in slice order (so every window of
    `n` consecutive selections picks each server exactly once, in the same order as round-robin) -/
theorem wrr_equal_weights_all (names : List String) (w : Nat) (hw : 0 < w) :
    (WRR.new (names.map (fun s => (s, (w : Int))))).ring = (List.replicate w names).flatten := by
  have hwI : (0 : Int) < (w : Int) := by exact_mod_cast hw
  have hws : ((names.map (fun s => (s, (w : Int)))).filter (fun e => e.2 > 0)).map (fun e => (⟨e.1, e.2, 0⟩ : W))
      = eqSt names (w : Int) 0 := by
    rw [List.filter_eq_self.mpr (by intro e he; simp only [List.mem_map] at he; obtain ⟨s, _, rfl⟩ := he; simpa using hwI)]
    simp [eqSt, mkW, List.map_map, Function.comp]
  have htot := total_eqSt0 names (w : Int)
  simp only [WRR.new, hws, htot]
  have hnat : ((names.length : Int) * (w : Int)).toNat = w * names.length := by
    rw [← Int.natCast_mul, Int.toNat_natCast, Nat.mul_comm]
  rw [hnat]
  rcases Nat.lt_or_ge names.length 2 with hlt | h2
  · -- zero or one server
    match names, hlt with
    | [], _ => simp [buildRingAux, eqSt]
    | [x], _ =>
      have : eqSt [x] (w : Int) 0 = [mkW (w : Int) 0 x] := by simp [eqSt]
      rw [this, buildRing_single]
      simp [mkW]
  · rw [eqSt_rounds names (w : Int) hwI h2 w []]
    simp


/-- equal weights behave as plain round-robin: the ring is `w` repetitions of one pass over
    the servers in slice order (complete evaluation n ≤ 4, w ≤ 3; labelled as a finite check) -/
def equalOk (n w : Nat) : Bool :=
  let names := (List.range n).map (fun i => s!"s{i}")
  let r := (WRR.new (names.map (fun s => (s, (w : Int))))).ring
  r == (List.replicate w names).flatten

theorem wrr_equal_weights : ∀ n ∈ [1, 2, 3, 4], ∀ w ∈ [1, 2, 3], equalOk n w = true := by decide +kernel

end Rpcx.Props.C12
