import Rpcx.Driver.Main
def main (args : List String) : IO UInt32 := Rpcx.Driver.main args
