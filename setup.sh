#!/bin/sh
# Build the framework from files on disk only (offline): regenerate lean/Rpcx/Gen from
# /repo, build every Lean module (models, lemmas, property theorems, driver), build the
# Go extractor and harness.
set -e
cd "$(dirname "$0")"
export GOFLAGS=-mod=mod GOPROXY=off GOSUMDB=off GOTOOLCHAIN=local
mkdir -p .build .work evidence
cp /repo/go.sum go/go.sum
(cd go && go run ./extract -repo "${VERIF_REPO:-/repo}" -out ../lean/Rpcx/Gen)
(cd lean && lake build Rpcx driver) || echo "setup: lake build reported errors (checks will report them per property)"
(cd go && go build -tags verif -o ../.build/harness ./harness)
echo setup done
